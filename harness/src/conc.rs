//! Concurrent actors (a backup and a gc/delete, or two backups) under a deterministic scheduler.
//!
//! Every actor runs on its own thread with its own runtime and parks in the interceptor's
//! `before` of every storage verb; the scheduler releases exactly one parked verb at a time, so
//! the order of `op` events in the log is the real order of effects.
//!
//! Step {"op":"concurrent","actors":[A1,A2],"schedule":[SEG,...],"rest":"order"}
//!   Ai  = a backup or delete step with an "actor" name; a backup may carry its own "tree".
//!   SEG = {"a": name, "n": k}            run k verbs of that actor
//!       | {"a": name, "until": {"verb": v, "t": keytype}}   run it up to and including such a verb
//!   After the schedule the actors are run to completion one after the other in the order of
//!   their last appearance... simply: the actor of the last segment first, then the others.
//!
//! Step {"op":"conc_sweep","actors":[A1,A2],"preemptions":P,"sample":N,"seed":s,"then":[...]}
//!   enumerates schedules with at most P switches placed before key verbs (verbs on shared keys),
//!   sampling N of them when there are more.

use std::collections::HashMap;
use std::path::PathBuf;
use std::sync::Arc;
use std::time::Duration;

use serde_json::{Value, json};

use crate::decode;
use crate::drive::Runner;
use crate::intercept::{Plan, Sched};
use crate::tree::{self, Node};

fn actor_name(a: &Value, i: usize) -> String {
    a.get("actor").and_then(|x| x.as_str()).map(|s| s.to_string()).unwrap_or_else(|| format!("a{i}"))
}

fn seg_matches(until: &Value, parked: &Value) -> bool {
    let v_ok = until.get("verb").and_then(|x| x.as_str()).map(|v| parked["verb"] == v).unwrap_or(true);
    let t_ok = until.get("t").and_then(|x| x.as_str()).map(|t| parked["key"]["t"] == t).unwrap_or(true);
    v_ok && t_ok
}

/// Is this parked verb one that touches state shared with the other actor?
fn is_key_verb(parked: &Value) -> bool {
    let t = parked["key"]["t"].as_str().unwrap_or("");
    let verb = parked["verb"].as_str().unwrap_or("");
    match t {
        "Lock" | "Root" | "BandDir" | "Head" | "Tail" | "BlockRoot" | "Block" => true,
        "BlockSub" => verb == "list_dir",
        "Hunk" => verb == "write" || verb == "read",
        _ => false,
    }
}

struct Prepared {
    steps: Vec<Value>,
    names: Vec<String>,
    srcs: Vec<(PathBuf, Vec<Node>, bool)>,
}

fn prepare(r: &Runner, actors: &[Value]) -> Prepared {
    let mut names = vec![];
    let mut srcs = vec![];
    for (i, a) in actors.iter().enumerate() {
        let name = actor_name(a, i);
        if let Some(t) = a.get("tree") {
            let nodes: Vec<Node> = serde_json::from_value(t.clone()).expect("actor tree");
            let dir = r.work.join(format!("src_{name}"));
            tree::materialize(&dir, &nodes).expect("materialize actor tree");
            let proj = tree::project_source(&dir).unwrap();
            srcs.push((dir, proj, true));
        } else {
            srcs.push((r.src.clone(), r.src_tree.clone(), false));
        }
        names.push(name);
    }
    let steps = actors
        .iter()
        .enumerate()
        .map(|(i, a)| {
            let mut a = a.clone();
            a["actor"] = json!(names[i]);
            a
        })
        .collect();
    Prepared { steps, names, srcs }
}

/// Run the actors under `schedule`. Returns per actor the list of parked-verb descriptions it
/// executed, in order (used by the sweep to find switch points).
fn run_scheduled(r: &Runner, prep: &Prepared, schedule: &[Value], record: bool) -> (HashMap<String, Vec<Value>>, bool) {
    let sched = Sched::new(&prep.names);
    let mut executed: HashMap<String, Vec<Value>> = prep.names.iter().map(|n| (n.clone(), vec![])).collect();
    let mut diverged = false;
    r.log.emit(json!({"ev": "conc_begin", "actors": prep.names, "schedule": schedule}));
    std::thread::scope(|scope| {
        for (i, st) in prep.steps.iter().enumerate() {
            let sched = sched.clone();
            let (dir, tree_, own) = &prep.srcs[i];
            scope.spawn(move || {
                if st["op"] == "delete" {
                    r.do_delete(st, Plan::default(), Some(sched));
                } else {
                    r.do_backup_from(st, Plan::default(), Some(sched), dir, tree_, *own);
                }
            });
        }
        // the scheduling loop
        let mut seg_i = 0;
        let mut seg_left: i64 = -1; // remaining count of current "n" segment
        let mut last_actor: Option<String> = None;
        loop {
            let parked = match sched.wait_quiescent(Duration::from_secs(crate::drive::CALL_TIMEOUT_S + 15)) {
                Some(p) => p,
                None => {
                    // an actor is stuck outside a storage verb: give up (the watchdog will report)
                    r.log.emit(json!({"ev": "note", "what": "scheduler timeout"}));
                    std::process::exit(3);
                }
            };
            if parked.is_empty() {
                break;
            }
            // pick the actor
            let mut pick: Option<String> = None;
            while seg_i < schedule.len() {
                let seg = &schedule[seg_i];
                let a = seg["a"].as_str().unwrap_or("").to_string();
                if !parked.contains_key(&a) {
                    // that actor is done: the schedule no longer matches the run
                    if seg.get("n").is_none() {
                        diverged = true;
                    }
                    seg_i += 1;
                    seg_left = -1;
                    continue;
                }
                if let Some(n) = seg.get("n").and_then(|x| x.as_i64()) {
                    if seg_left < 0 {
                        seg_left = n;
                    }
                    if seg_left == 0 {
                        seg_i += 1;
                        seg_left = -1;
                        continue;
                    }
                    seg_left -= 1;
                    if seg_left == 0 {
                        seg_i += 1;
                        seg_left = -1;
                    }
                    pick = Some(a);
                    break;
                } else {
                    let until = &seg["until"];
                    if seg_matches(until, &parked[&a]) {
                        seg_i += 1;
                    }
                    pick = Some(a);
                    break;
                }
            }
            let a = match pick {
                Some(a) => a,
                None => {
                    // schedule exhausted: finish the last scheduled actor first, then the others in order
                    match &last_actor {
                        Some(l) if parked.contains_key(l) => l.clone(),
                        _ => prep.names.iter().find(|n| parked.contains_key(*n)).unwrap().clone(),
                    }
                }
            };
            if record {
                executed.get_mut(&a).unwrap().push(parked[&a].clone());
            }
            last_actor = Some(a.clone());
            sched.grant(&a);
        }
    });
    r.log.emit(json!({"ev": "quiesce", "diverged": diverged}));
    r.emit_fsck();
    (executed, diverged)
}

pub fn do_concurrent(r: &mut Runner, st: &Value) {
    let actors = st["actors"].as_array().cloned().unwrap_or_default();
    let schedule = st.get("schedule").and_then(|x| x.as_array()).cloned().unwrap_or_default();
    let prep = prepare(r, &actors);
    run_scheduled(r, &prep, &schedule, false);
}

/// Enumerate schedules with at most P preemptions at key verbs.
pub fn do_conc_sweep(r: &mut Runner, st: &Value) {
    let actors = st["actors"].as_array().cloned().unwrap_or_default();
    let then: Vec<Value> = st.get("then").and_then(|x| x.as_array()).cloned().unwrap_or_default();
    let pmax = st.get("preemptions").and_then(|x| x.as_u64()).unwrap_or(2) as usize;
    let sample = st.get("sample").and_then(|x| x.as_u64()).unwrap_or(0) as usize;
    let seed = st.get("seed").and_then(|x| x.as_u64()).unwrap_or(1);
    let prep = prepare(r, &actors);
    assert_eq!(prep.names.len(), 2, "conc_sweep takes two actors");
    r.do_save();
    // solo probes: A then B, and B then A, recording the verbs each executes
    let (a, b) = (prep.names[0].clone(), prep.names[1].clone());
    let mut key_positions: HashMap<String, Vec<usize>> = HashMap::new();
    let mut lens: HashMap<String, usize> = HashMap::new();
    for first in [&a, &b] {
        let sch = vec![json!({"a": first, "n": 1_000_000})];
        let (exec, _) = run_scheduled(r, &prep, &sch, true);
        r.run_steps(&then);
        r.do_reset();
        // positions (counts of verbs executed before) at which a switch is worthwhile
        let v = &exec[first];
        let mut pos: Vec<usize> = vec![0];
        for (i, p) in v.iter().enumerate() {
            if is_key_verb(p) {
                if i > 0 {
                    pos.push(i); // before this verb
                }
                pos.push(i + 1); // after it
            }
        }
        pos.sort();
        pos.dedup();
        lens.insert(first.clone(), v.len());
        key_positions.insert(first.clone(), pos);
    }
    // schedules: first actor X runs to position p1, then Y to q1, then X to p2 (> p1), then Y to q2 (> q1) ...
    let mut scheds: Vec<Vec<Value>> = Vec::new();
    for (x, y) in [(&a, &b), (&b, &a)] {
        let px = &key_positions[x];
        let py = &key_positions[y];
        // 1 preemption: X p1, then Y to the end, then X
        for &p1 in px {
            if pmax >= 1 && p1 > 0 && p1 < lens[x] {
                scheds.push(vec![json!({"a": x, "n": p1}), json!({"a": y, "n": 1_000_000})]);
            }
            if pmax >= 2 {
                for &q1 in py {
                    if q1 == 0 || q1 >= lens[y] {
                        continue;
                    }
                    scheds.push(vec![json!({"a": x, "n": p1}), json!({"a": y, "n": q1}), json!({"a": x, "n": 1_000_000})]);
                    if pmax >= 3 {
                        for &p2 in px {
                            if p2 <= p1 || p2 >= lens[x] {
                                continue;
                            }
                            scheds.push(vec![json!({"a": x, "n": p1}), json!({"a": y, "n": q1}), json!({"a": x, "n": p2 - p1}),
                                             json!({"a": y, "n": 1_000_000})]);
                        }
                    }
                }
            }
        }
    }
    let total = scheds.len();
    // Screening: run EVERY schedule with up to `screen` preemptions with the log muted, look at the
    // final archive with the harness's own decoder, and keep the schedules after which a complete
    // version looks broken (or an actor panicked, or the lock stayed). They are then executed again
    // with full logging, ahead of the sample, and it is that execution TLC judges.
    let screen = st.get("screen").and_then(|x| x.as_u64()).unwrap_or(0) as usize;
    let mut hot: Vec<Vec<Value>> = Vec::new();
    let mut screened = 0usize;
    if screen > 0 {
        let mut all: Vec<Vec<Value>> = Vec::new();
        for (x, y) in [(&a, &b), (&b, &a)] {
            let px = &key_positions[x];
            let py = &key_positions[y];
            for &p1 in px {
                if p1 == 0 || p1 >= lens[x] {
                    continue;
                }
                all.push(vec![json!({"a": x, "n": p1}), json!({"a": y, "n": 1_000_000})]);
                if screen < 2 {
                    continue;
                }
                for &q1 in py {
                    if q1 == 0 || q1 >= lens[y] {
                        continue;
                    }
                    all.push(vec![json!({"a": x, "n": p1}), json!({"a": y, "n": q1}), json!({"a": x, "n": 1_000_000})]);
                    if screen < 3 {
                        continue;
                    }
                    for &p2 in px {
                        if p2 <= p1 || p2 >= lens[x] {
                            continue;
                        }
                        all.push(vec![json!({"a": x, "n": p1}), json!({"a": y, "n": q1}), json!({"a": x, "n": p2 - p1}), json!({"a": y, "n": 1_000_000})]);
                    }
                }
            }
        }
        let cap = st.get("screen_cap").and_then(|x| x.as_u64()).unwrap_or(20_000) as usize;
        if all.len() > cap {
            // an even spread over the enumeration order
            let step = all.len() as f64 / cap as f64;
            all = (0..cap).map(|i| all[(i as f64 * step) as usize].clone()).collect();
        }
        r.log.set_muted(true);
        for sch in &all {
            run_scheduled(r, &prep, sch, false);
            let bad = decode::suspicious(&decode::fsck(&r.arch));
            r.do_reset();
            let panicked = r.log.set_muted(true);
            if (bad || panicked) && hot.len() < 12 {
                hot.push(sch.clone());
            }
            screened += 1;
        }
        r.log.set_muted(false);
    }
    if sample > 0 && scheds.len() > sample {
        let mut x = seed.wrapping_mul(0x9E3779B97F4A7C15) | 1;
        let mut picked = Vec::new();
        for _ in 0..sample {
            x ^= x << 13;
            x ^= x >> 7;
            x ^= x << 17;
            let i = (x % scheds.len() as u64) as usize;
            picked.push(scheds.swap_remove(i));
        }
        scheds = picked;
    }
    let nhot = hot.len();
    hot.extend(scheds);
    let scheds = hot;
    r.log.emit(json!({"ev": "sweep", "mode": "schedules", "nops": lens[&a] + lens[&b], "ninj": scheds.len(), "total": total,
                      "screened": screened, "hot": nhot}));
    for sch in scheds {
        run_scheduled(r, &prep, &sch, false);
        r.run_steps(&then);
        r.do_reset();
    }
    r.do_unsave();
}
