//! Concurrent actors under a deterministic scheduler (filled in later).
use serde_json::Value;

use crate::drive::Runner;

pub fn do_concurrent(_r: &mut Runner, _st: &Value) {
    unimplemented!("concurrent step")
}
