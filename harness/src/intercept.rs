//! Interceptors installed on conserve's Transport (cargo feature `verif_hooks`): they log every
//! storage verb with an independently decoded payload, and can make a verb fail, stop the world
//! (crash), or park the calling actor until a scheduler releases it.

use std::collections::HashMap;
use std::fs;
use std::io::{BufWriter, Write};
use std::path::{Path, PathBuf};
use std::sync::{Arc, Condvar, Mutex};

use conserve::transport::hook::{Decision, Interceptor, Op, Outcome, Verb};
use conserve::transport::{ErrorKind, WriteMode};
use serde_json::{Value, json};

use crate::decode;

/// The ndjson event log. One line per event, flushed at once so that a hang or abort leaves a
/// usable prefix.
pub struct Log {
    inner: Mutex<LogInner>,
}

struct LogInner {
    w: BufWriter<fs::File>,
    seq: u64,
    pub lines: u64,
    /// While muted nothing is written (screening runs of the schedule search); a panic reported
    /// by a muted event is remembered.
    muted: bool,
    muted_panic: bool,
}

impl Log {
    pub fn create(path: &Path) -> std::io::Result<Log> {
        Ok(Log {
            inner: Mutex::new(LogInner { w: BufWriter::new(fs::File::create(path)?), seq: 0, lines: 0, muted: false, muted_panic: false }),
        })
    }

    /// Mute / unmute the log; unmuting returns whether a muted event reported a panic.
    pub fn set_muted(&self, m: bool) -> bool {
        let mut g = self.inner.lock().unwrap();
        g.muted = m;
        let p = g.muted_panic;
        g.muted_panic = false;
        p
    }

    pub fn emit(&self, v: Value) {
        let mut g = self.inner.lock().unwrap();
        if g.muted {
            if v.get("panic").and_then(|x| x.as_bool()) == Some(true) && v.get("crashed").and_then(|x| x.as_bool()) != Some(true) {
                g.muted_panic = true;
            }
            return;
        }
        serde_json::to_writer(&mut g.w, &v).unwrap();
        g.w.write_all(b"\n").unwrap();
        g.w.flush().unwrap();
        g.lines += 1;
    }

    /// Emit an op event, assigning its sequence number under the log's lock.
    pub fn emit_op(&self, mut v: Value) {
        let mut g = self.inner.lock().unwrap();
        if g.muted {
            return;
        }
        g.seq += 1;
        v["seq"] = json!(g.seq);
        serde_json::to_writer(&mut g.w, &v).unwrap();
        g.w.write_all(b"\n").unwrap();
        g.w.flush().unwrap();
        g.lines += 1;
    }

    pub fn lines(&self) -> u64 {
        self.inner.lock().unwrap().lines
    }
}

pub fn verb_name(v: Verb) -> &'static str {
    match v {
        Verb::Read => "read",
        Verb::Write => "write",
        Verb::ListDir => "list_dir",
        Verb::CreateDir => "create_dir",
        Verb::Metadata => "metadata",
        Verb::RemoveFile => "remove_file",
        Verb::RemoveDirAll => "remove_dir_all",
    }
}

pub fn kind_name(k: ErrorKind) -> &'static str {
    match k {
        ErrorKind::NotFound => "NotFound",
        ErrorKind::AlreadyExists => "AlreadyExists",
        ErrorKind::PermissionDenied => "PermissionDenied",
        _ => "Other",
    }
}

pub fn kind_of(s: &str) -> ErrorKind {
    match s {
        "NotFound" => ErrorKind::NotFound,
        "AlreadyExists" => ErrorKind::AlreadyExists,
        "PermissionDenied" => ErrorKind::PermissionDenied,
        _ => ErrorKind::Other,
    }
}

/// What to inject into one API call.
#[derive(Clone, Debug, Default)]
pub struct Plan {
    /// Stop the world before the op with this index (0-based, counted over this call's ops).
    pub crash_at: Option<usize>,
    /// If the crashing op is a write to an absent path, leave a zero-length file.
    pub crash_empty: bool,
    /// If the crashing op is a remove_dir_all: the recursive removal is not atomic, so the kill
    /// may come after some of the files below the directory are gone. With Some(seed) a
    /// seed-chosen non-empty subset of those files is removed (each removal logged as an op
    /// with inj = "torn") before the world stops.
    pub crash_torn: Option<u64>,
    /// Make the op with this index fail with this error kind.
    pub fail: HashMap<usize, String>,
    /// Additionally make each op fail with this probability ...
    pub fail_p: f64,
    pub fail_seed: u64,
    /// ... but only ops whose verb is in this list (empty = all verbs).
    pub fail_verbs: Vec<String>,
    /// Make every op with this (verb, archive-relative path) fail with this kind: a fault chosen by
    /// WHAT it hits, not by its position in the run (positions may depend on unordered collections).
    pub fail_paths: Vec<(String, String, String)>,
    /// The op with this index takes this many milliseconds longer (slow storage); nothing else changes.
    pub stall: Option<(usize, u64)>,
    /// ... or the first write of a data block does.
    pub stall_block_ms: Option<u64>,
    /// Every op with this verb on a path ending like this takes this many milliseconds longer.
    pub stall_paths: Vec<(String, String, u64)>,
}

struct ActorState {
    plan: Plan,
    idx: usize,
    frozen: bool,
    rng: u64,
    /// (verb, path) -> stack of (k, pre, inj)
    pending: HashMap<(String, String), Vec<(usize, String, String)>>,
    /// verbs of the ops issued in this call, in order of issue
    verbs: Vec<String>,
    paths: Vec<String>,
}

/// A deterministic scheduler for several actors: exactly one actor runs between two of its
/// storage verbs at a time. Actors block in `before` until they are granted a step.
pub struct Sched {
    st: Mutex<SchedState>,
    cv: Condvar,
}

#[derive(Default)]
struct SchedState {
    /// actor -> description of the op it is parked at (None = running or not started)
    parked: HashMap<String, Option<Value>>,
    /// actor that is allowed to execute its parked op now
    granted: Option<String>,
    /// actors that have finished their call
    done: HashMap<String, bool>,
}

impl Sched {
    pub fn new(actors: &[String]) -> Arc<Sched> {
        let mut st = SchedState::default();
        for a in actors {
            st.parked.insert(a.clone(), None);
            st.done.insert(a.clone(), false);
        }
        Arc::new(Sched { st: Mutex::new(st), cv: Condvar::new() })
    }

    /// Called by an actor before each op: park until granted.
    fn park(&self, actor: &str, desc: Value) {
        let mut g = self.st.lock().unwrap();
        g.parked.insert(actor.to_string(), Some(desc));
        self.cv.notify_all();
        while g.granted.as_deref() != Some(actor) {
            g = self.cv.wait(g).unwrap();
        }
        g.granted = None;
        g.parked.insert(actor.to_string(), None);
        self.cv.notify_all();
    }

    pub fn mark_done(&self, actor: &str) {
        let mut g = self.st.lock().unwrap();
        g.done.insert(actor.to_string(), true);
        g.parked.insert(actor.to_string(), None);
        self.cv.notify_all();
    }

    /// Scheduler side: wait until every live actor is parked (or done); returns the parked ops.
    pub fn wait_quiescent(&self, timeout: std::time::Duration) -> Option<HashMap<String, Value>> {
        let deadline = std::time::Instant::now() + timeout;
        let mut g = self.st.lock().unwrap();
        loop {
            let all = g.done.iter().all(|(a, d)| *d || g.parked.get(a).map(|p| p.is_some()).unwrap_or(false));
            if all && g.granted.is_none() {
                let mut m = HashMap::new();
                for (a, p) in g.parked.iter() {
                    if let (false, Some(v)) = (g.done[a], p) {
                        m.insert(a.clone(), v.clone());
                    }
                }
                return Some(m);
            }
            let now = std::time::Instant::now();
            if now >= deadline {
                return None;
            }
            let (ng, _) = self.cv.wait_timeout(g, deadline - now).unwrap();
            g = ng;
        }
    }

    pub fn grant(&self, actor: &str) {
        let mut g = self.st.lock().unwrap();
        g.granted = Some(actor.to_string());
        self.cv.notify_all();
    }
}

/// The interceptor of a long-lived Archive handle ("session"): the transport is created once, each
/// call made through the handle installs its own ActorIcpt here for the duration of the call.
#[derive(Default)]
pub struct SwitchIcpt {
    inner: Mutex<Option<Arc<ActorIcpt>>>,
}

impl SwitchIcpt {
    pub fn set(&self, i: Option<Arc<ActorIcpt>>) {
        *self.inner.lock().unwrap() = i;
    }
    fn cur(&self) -> Option<Arc<ActorIcpt>> {
        self.inner.lock().unwrap().clone()
    }
}

impl Interceptor for SwitchIcpt {
    fn before(&self, op: &Op<'_>) -> Decision {
        match self.cur() {
            Some(i) => i.before(op),
            None => Decision::Proceed,
        }
    }
    fn after(&self, op: &Op<'_>, outcome: &Outcome<'_>) {
        if let Some(i) = self.cur() {
            i.after(op, outcome)
        }
    }
}

pub struct ActorIcpt {
    pub name: String,
    root: PathBuf,
    log: Arc<Log>,
    st: Mutex<ActorState>,
    sched: Option<Arc<Sched>>,
    /// Log non-mutating verbs too (off for pure readers, whose reads carry no information
    /// the specification uses; a mutation by a reader is always logged).
    log_reads: bool,
}

impl ActorIcpt {
    pub fn new(name: &str, root: &Path, log: Arc<Log>, plan: Plan, sched: Option<Arc<Sched>>) -> Arc<ActorIcpt> {
        let seed = plan.fail_seed.wrapping_mul(0x9E3779B97F4A7C15) ^ 0xD1B54A32D192ED03;
        Arc::new(ActorIcpt {
            name: name.to_string(),
            root: root.to_path_buf(),
            log,
            st: Mutex::new(ActorState {
                plan,
                idx: 0,
                frozen: false,
                rng: seed | 1,
                pending: HashMap::new(),
                verbs: Vec::new(),
                paths: Vec::new(),
            }),
            sched,
            log_reads: name != "rd",
        })
    }

    /// Verbs (and paths) of the ops issued so far, in order.
    pub fn issued(&self) -> (Vec<String>, Vec<String>) {
        let g = self.st.lock().unwrap();
        (g.verbs.clone(), g.paths.clone())
    }

    pub fn is_frozen(&self) -> bool {
        self.st.lock().unwrap().frozen
    }

    fn pre_state(&self, path: &str) -> String {
        match fs::symlink_metadata(self.root.join(path)) {
            Err(_) => "absent".into(),
            Ok(md) if md.is_dir() => "dir".into(),
            Ok(md) if md.len() == 0 => "empty".into(),
            Ok(_) => "nonempty".into(),
        }
    }
}

impl ActorIcpt {
    /// The part of a recursive directory removal that happened before a kill: remove a seed-chosen
    /// non-empty subset of the regular files below `path` (directories stay), logging each removal.
    fn tear_dir(&self, path: &str, seed: u64, k: usize) {
        fn files_below(dir: &Path, rel: &str, out: &mut Vec<String>) {
            let mut names: Vec<(String, bool)> = match fs::read_dir(dir) {
                Ok(rd) => rd.filter_map(|e| e.ok()).map(|e| (e.file_name().to_string_lossy().to_string(), e.path().is_dir())).collect(),
                Err(_) => return,
            };
            names.sort();
            for (n, is_dir) in names {
                let r = format!("{rel}/{n}");
                if is_dir {
                    files_below(&dir.join(&n), &r, out);
                } else {
                    out.push(r);
                }
            }
        }
        let mut files = Vec::new();
        files_below(&self.root.join(path), path.trim_end_matches('/'), &mut files);
        if files.is_empty() {
            return;
        }
        let mut x = seed.wrapping_mul(0x9E3779B97F4A7C15) | 1;
        let mut gone: Vec<String> = files.iter().filter(|_| next_rand(&mut x) < 0.5).cloned().collect();
        if gone.is_empty() {
            gone.push(files[(next_rand(&mut x) * files.len() as f64) as usize % files.len()].clone());
        }
        for f in gone {
            if fs::remove_file(self.root.join(&f)).is_ok() {
                self.log.emit_op(json!({
                    "ev": "op", "seq": 0, "actor": self.name, "k": k as i64, "verb": "remove_file",
                    "key": decode::key_of(&f), "mode": "", "inj": "torn", "res": "ok", "pre": "",
                    "dec": decode::payload("none"), "names": Vec::<String>::new(), "len": -1,
                }));
            }
        }
    }
}

fn next_rand(x: &mut u64) -> f64 {
    // xorshift64*
    *x ^= *x >> 12;
    *x ^= *x << 25;
    *x ^= *x >> 27;
    let r = x.wrapping_mul(0x2545F4914F6CDD1D);
    (r >> 11) as f64 / (1u64 << 53) as f64
}

impl Interceptor for ActorIcpt {
    fn before(&self, op: &Op<'_>) -> Decision {
        let verb = verb_name(op.verb).to_string();
        if let Some(s) = &self.sched {
            let frozen = self.st.lock().unwrap().frozen;
            if !frozen {
                s.park(&self.name, json!({"verb": verb, "path": op.path, "key": decode::key_of(op.path)}));
            }
        }
        let stall = {
            let mut g = self.st.lock().unwrap();
            let by_index = g.plan.stall.filter(|(k, _)| *k == g.idx && !g.frozen).map(|x| x.1);
            if by_index.is_none() && op.verb == Verb::Write && op.path.starts_with("d/") && !g.frozen {
                g.plan.stall_block_ms.take()
            } else if by_index.is_none() {
                g.plan.stall_paths.iter().find(|(v, sfx, _)| *v == verb && op.path.trim_end_matches('/').ends_with(sfx.as_str())).map(|x| x.2)
            } else {
                by_index
            }
        };
        if let Some(ms) = stall {
            if std::env::var("CV_DEBUG_STALL").is_ok() {
                eprintln!("stall {ms} ms before {verb} {}", op.path);
            }
            std::thread::sleep(std::time::Duration::from_millis(ms));
        }
        let mut g = self.st.lock().unwrap();
        let k = g.idx;
        g.idx += 1;
        g.verbs.push(verb.clone());
        g.paths.push(op.path.to_string());
        let pre = if op.verb == Verb::Write { self.pre_state(op.path) } else { String::new() };
        let mut inj = String::new();
        let mut decision = Decision::Proceed;
        if g.frozen {
            inj = "frozen".into();
            decision = Decision::Fail(ErrorKind::Other);
        } else if g.plan.crash_at == Some(k) {
            g.frozen = true;
            inj = "crash".into();
            if g.plan.crash_empty && op.verb == Verb::Write && pre == "absent" {
                let full = self.root.join(op.path);
                if full.parent().map(|p| p.is_dir()).unwrap_or(false) && fs::write(&full, b"").is_ok() {
                    inj = "crash_empty".into();
                }
            }
            if let (Some(seed), Verb::RemoveDirAll) = (g.plan.crash_torn, op.verb) {
                self.tear_dir(op.path, seed, k);
            }
            decision = Decision::Fail(ErrorKind::Other);
        } else if let Some(kind) = g.plan.fail.get(&k).cloned() {
            inj = "fail".into();
            decision = Decision::Fail(kind_of(&kind));
        } else if let Some((_, _, kind)) = g.plan.fail_paths.iter().find(|(v, p, _)| *v == verb && p == op.path) {
            inj = "fail".into();
            decision = Decision::Fail(kind_of(kind));
        } else if g.plan.fail_p > 0.0 && (g.plan.fail_verbs.is_empty() || g.plan.fail_verbs.contains(&verb)) {
            let p = g.plan.fail_p;
            let mut r = g.rng;
            let x = next_rand(&mut r);
            if x < p {
                let y = next_rand(&mut r);
                let kinds = ["NotFound", "AlreadyExists", "PermissionDenied", "Other"];
                inj = "fail".into();
                decision = Decision::Fail(kind_of(kinds[(y * 4.0) as usize % 4]));
            }
            g.rng = r;
        }
        g.pending.entry((verb, op.path.to_string())).or_default().push((k, pre, inj));
        decision
    }

    fn after(&self, op: &Op<'_>, outcome: &Outcome<'_>) {
        let verb = verb_name(op.verb).to_string();
        let (k, pre, inj) = {
            let mut g = self.st.lock().unwrap();
            g.pending
                .get_mut(&(verb.clone(), op.path.to_string()))
                .and_then(|v| v.pop())
                .unwrap_or((usize::MAX, String::new(), String::new()))
        };
        if inj == "frozen" {
            return; // nothing happens after the crash
        }
        let mutating = matches!(op.verb, Verb::Write | Verb::CreateDir | Verb::RemoveFile | Verb::RemoveDirAll);
        if !self.log_reads && !mutating {
            return;
        }
        let mut names: Vec<String> = Vec::new();
        let mut len: i64 = -1;
        let res = match outcome {
            Outcome::Done => "ok",
            Outcome::Bytes(b) => {
                len = b.len() as i64;
                "ok"
            }
            Outcome::List(l) => {
                names = l.iter().map(|e| e.name.clone()).collect();
                names.sort();
                "ok"
            }
            Outcome::Meta(m) => {
                len = m.len as i64;
                "ok"
            }
            Outcome::Err(k) => kind_name(*k),
            // the caller's task was aborted while the operation was in flight: effect unknown
            Outcome::Abandoned => "Abandoned",
        };
        let dec = match (op.verb, op.content) {
            (Verb::Write, Some(c)) => decode::decode_for(op.path, c),
            _ => decode::payload("none"),
        };
        let mode = match op.mode {
            Some(WriteMode::CreateNew) => "new",
            Some(WriteMode::Overwrite) => "over",
            None => "",
        };
        self.log.emit_op(json!({
            "ev": "op", "seq": 0, "actor": self.name, "k": k as i64, "verb": verb,
            "key": decode::key_of(op.path), "mode": mode, "inj": inj, "res": res, "pre": pre,
            "dec": dec, "names": names, "len": len.min(2_000_000_000),
        }));
    }
}
