//! Executes scenarios against the real conserve library and logs what happens as ndjson events
//! (the event language of spec/Trace.tla).

use std::os::unix::ffi::OsStrExt;
use std::collections::{BTreeMap, BTreeSet, HashMap};
use std::fs;
use std::panic::{AssertUnwindSafe, catch_unwind};
use std::path::{Path, PathBuf};
use std::sync::atomic::{AtomicU64, Ordering};
use std::sync::{Arc, Mutex};
use std::time::{Duration, Instant};

use conserve::monitor::test::TestMonitor;
use conserve::transport::Transport;
use conserve::{
    Apath, Archive, BackupOptions, BandId, BandSelectionPolicy, DeleteOptions, DiffOptions, Exclude,
    RestoreOptions, SourceTree, ValidateOptions,
};
use serde_json::{Value, json};

use crate::decode;
use crate::intercept::{ActorIcpt, Log, Plan, Sched};
use crate::tree::{self, Node};

/// Seconds a single API call may take before it is declared hung.
pub const CALL_TIMEOUT_S: u64 = 20;
/// Added to the timeout of the next call (a call with a deliberately slow storage verb); cleared by it.
pub static EXTRA_TIMEOUT_S: AtomicU64 = AtomicU64::new(0);

pub static WATCHDOG_DEADLINE: AtomicU64 = AtomicU64::new(0);

fn now_s() -> u64 {
    std::time::SystemTime::now().duration_since(std::time::UNIX_EPOCH).unwrap().as_secs()
}

thread_local! {
    static LAST_PANIC: std::cell::RefCell<String> = const { std::cell::RefCell::new(String::new()) };
}

pub fn install_panic_hook() {
    std::panic::set_hook(Box::new(|info| {
        let msg = format!("{info}");
        // (also on stderr: when it is the harness itself that panics, the driver shows the tail of stderr)
        eprintln!("panic: {}", msg.chars().take(300).collect::<String>());
        LAST_PANIC.with(|p| *p.borrow_mut() = msg.chars().take(300).collect());
    }));
}

fn take_panic() -> String {
    LAST_PANIC.with(|p| std::mem::take(&mut *p.borrow_mut()))
}

pub struct Runner {
    pub work: PathBuf,
    pub arch: PathBuf,
    pub src: PathBuf,
    pub log: Arc<Log>,
    pub src_tree: Vec<Node>,
    saved: Vec<(PathBuf, Vec<Node>)>,
    counter: usize,
    pub rt_flavor: String,
    pub scen_id: String,
    last_digest: Option<Vec<(String, String)>>,
    /// A directory on the HOST whose absolute path equals an archive path of the current source
    /// tree (`/tmp/cvmirror-…/…`), holding sentinel files: code that takes an archive path for a
    /// path on this machine touches it. Watched like the sentinels beside the destination.
    mirror: Option<PathBuf>,
    /// Scenario flag "session": backups and deletes (unless marked "fresh") go through ONE long-lived
    /// Archive handle, as a program embedding the library would use it; everything else, and steps
    /// marked fresh, open the archive anew as each run of the command-line tool does.
    session_on: bool,
    session: Mutex<Option<(Archive, Arc<crate::intercept::SwitchIcpt>)>>,
}

/// Outcome of one API call.
pub struct CallOut<T> {
    pub val: Option<T>,
    pub res: String,
    pub panic: bool,
    pub panic_msg: String,
    pub timeout: bool,
    pub mon_errors: Vec<String>,
    pub ms: u64,
}

fn err_name<E: std::fmt::Debug>(e: &E) -> String {
    let s = format!("{e:?}");
    let end = s.find(|c: char| !(c.is_alphanumeric() || c == '_')).unwrap_or(s.len());
    format!("err:{}", &s[..end])
}

fn copy_dir(from: &Path, to: &Path) -> std::io::Result<()> {
    fs::create_dir_all(to)?;
    for e in fs::read_dir(from)? {
        let e = e?;
        let ft = e.file_type()?;
        let dst = to.join(e.file_name());
        if ft.is_dir() {
            copy_dir(&e.path(), &dst)?;
        } else {
            fs::copy(e.path(), &dst)?;
        }
    }
    Ok(())
}

pub fn build_rt(flavor: &str) -> tokio::runtime::Runtime {
    match flavor.trim_end_matches("-nodrain") {
        "mt1" => tokio::runtime::Builder::new_multi_thread().worker_threads(1).enable_all().build().unwrap(),
        "mt2" => tokio::runtime::Builder::new_multi_thread().worker_threads(2).enable_all().build().unwrap(),
        "mt8" => tokio::runtime::Builder::new_multi_thread().worker_threads(8).enable_all().build().unwrap(),
        _ => tokio::runtime::Builder::new_current_thread().enable_all().build().unwrap(),
    }
}

/// Run an async API call on a fresh runtime with panic capture, a timeout, and draining of
/// tasks the call left behind (the GC lock's Drop spawns one).
pub fn run_call<T, F, Fut>(flavor: &str, monitor: &Arc<TestMonitor>, f: F) -> CallOut<T>
where
    F: FnOnce() -> Fut,
    Fut: std::future::Future<Output = Result<T, String>>,
{
    let start = Instant::now();
    let call_timeout = CALL_TIMEOUT_S + EXTRA_TIMEOUT_S.swap(0, Ordering::SeqCst);
    WATCHDOG_DEADLINE.store(now_s() + call_timeout + 10, Ordering::SeqCst);
    let rt = build_rt(flavor);
    let nodrain = flavor.ends_with("-nodrain");
    let mut out = CallOut {
        val: None,
        res: String::new(),
        panic: false,
        panic_msg: String::new(),
        timeout: false,
        mon_errors: vec![],
        ms: 0,
    };
    let r = catch_unwind(AssertUnwindSafe(|| {
        rt.block_on(async {
            let r = tokio::time::timeout(Duration::from_secs(call_timeout), f()).await;
            // let tasks spawned by the call (lock release in Drop) finish -- unless this flavour
            // models a program that exits as soon as the operation returns
            let t0 = Instant::now();
            loop {
                if nodrain {
                    break;
                }
                tokio::task::yield_now().await;
                if tokio::runtime::Handle::current().metrics().num_alive_tasks() == 0 || t0.elapsed() > Duration::from_secs(2) {
                    break;
                }
                tokio::time::sleep(Duration::from_millis(1)).await;
            }
            r
        })
    }));
    match r {
        Err(_) => {
            out.panic = true;
            out.panic_msg = take_panic();
            out.res = "panic".into();
        }
        Ok(Err(_elapsed)) => {
            out.timeout = true;
            out.res = "timeout".into();
        }
        Ok(Ok(Ok(v))) => {
            out.val = Some(v);
            out.res = "ok".into();
        }
        Ok(Ok(Err(e))) => {
            out.res = e;
        }
    }
    // A panic may leave spawned tasks; dropping the runtime cancels them.
    if nodrain {
        let _ = catch_unwind(AssertUnwindSafe(|| rt.shutdown_background()));
    } else {
        let _ = catch_unwind(AssertUnwindSafe(|| rt.shutdown_timeout(Duration::from_millis(200))));
    }
    WATCHDOG_DEADLINE.store(0, Ordering::SeqCst);
    out.mon_errors = monitor.take_errors().iter().map(|e| err_name(e)).collect();
    out.ms = start.elapsed().as_millis() as u64;
    out
}

fn plan_of(step: &Value) -> Plan {
    let mut p = Plan::default();
    if let Some(k) = step.get("crash_at").and_then(|x| x.as_i64()) {
        if k >= 0 {
            p.crash_at = Some(k as usize);
        }
    }
    p.crash_empty = step.get("crash_empty").and_then(|x| x.as_bool()).unwrap_or(false);
    p.crash_torn = step.get("crash_torn").and_then(|x| x.as_u64());
    if let Some(f) = step.get("fail").and_then(|x| x.as_array()) {
        for pair in f {
            if let (Some(k), Some(kind)) = (pair[0].as_i64(), pair[1].as_str()) {
                p.fail.insert(k as usize, kind.to_string());
            }
        }
    }
    p.fail_p = step.get("fail_p").and_then(|x| x.as_f64()).unwrap_or(0.0);
    p.fail_seed = step.get("fail_seed").and_then(|x| x.as_u64()).unwrap_or(1);
    // {"verb": "remove_file", "content": [bytes], "kind": "PermissionDenied"}: the block holding that content
    if let Some(a) = step.get("fail_block").and_then(|x| x.as_array()) {
        for f in a {
            let content: Vec<u8> = serde_json::from_value(f["content"].clone()).unwrap_or_default();
            let hash = decode::blake2b_hex(&content);
            p.fail_paths.push((f["verb"].as_str().unwrap_or("remove_file").to_string(), format!("d/{}/{}", &hash[..3], hash),
                               f["kind"].as_str().unwrap_or("Other").to_string()));
        }
    }
    if let Some(v) = step.get("fail_verbs").and_then(|x| x.as_array()) {
        p.fail_verbs = v.iter().filter_map(|x| x.as_str().map(|s| s.to_string())).collect();
    }
    if let Some(ms) = step.get("stall_block").and_then(|x| x.as_u64()) {
        p.stall_block_ms = Some(ms);
        EXTRA_TIMEOUT_S.store(ms / 1000 + 5, Ordering::SeqCst);
    }
    // {"stall": [k, ms]}: the k-th storage verb of the call is slow
    if let Some(a) = step.get("stall").and_then(|x| x.as_array()) {
        if let (Some(k), Some(ms)) = (a.first().and_then(|x| x.as_u64()), a.get(1).and_then(|x| x.as_u64())) {
            p.stall = Some((k as usize, ms));
            EXTRA_TIMEOUT_S.store(ms / 1000 + 5, Ordering::SeqCst);
        }
    }
    p
}

fn str_list(v: Option<&Value>) -> Vec<String> {
    v.and_then(|x| x.as_array())
        .map(|a| a.iter().filter_map(|x| x.as_str().map(|s| s.to_string())).collect())
        .unwrap_or_default()
}

/// `cvharness restore1 <arch> <band> <dest> <subtree|-> <overwrite 0|1> [excl...]`: one plain restore with no
/// hooks, run as a child process under strace. Prints one JSON line with the outcome.
pub fn restore1(args: &[String]) {
    install_panic_hook();
    let arch = PathBuf::from(&args[0]);
    let band: i64 = args[1].parse().unwrap();
    let dest = PathBuf::from(&args[2]);
    let subtree = if args[3] == "-" { String::new() } else { args[3].clone() };
    let overwrite = args[4] == "1";
    let excl: Vec<String> = args[5..].to_vec();
    let mon = TestMonitor::arc();
    let mon2 = mon.clone();
    // a restore stuck in a blocking system call (opening a fifo, say) is reported as a timeout
    std::thread::spawn(|| {
        std::thread::sleep(Duration::from_secs(CALL_TIMEOUT_S + 5));
        println!("{}", json!({"res": "timeout", "panic": false, "pmsg": "", "timeout": true, "mon_list": []}));
        std::process::exit(0);
    });
    let out = run_call("ct", &mon, || async move {
        let archive = Archive::open(Transport::local(&arch)).await.map_err(|e| err_name(&e))?;
        let options = RestoreOptions {
            exclude: Exclude::from_strings(excl.iter()).map_err(|e| err_name(&e))?,
            only_subtree: if subtree.is_empty() { None } else { Some(Apath::from(subtree.as_str())) },
            overwrite,
            band_selection: Runner::policy(band),
            change_callback: None,
            inject_failures: HashMap::new(),
        };
        conserve::restore(&archive, &dest, options, mon2).await.map_err(|e| err_name(&e))
    });
    println!("{}", json!({"res": out.res, "panic": out.panic, "pmsg": out.panic_msg, "timeout": out.timeout, "mon_list": out.mon_errors}));
}

fn unescape_c(s: &str) -> Vec<u8> {
    let b = s.as_bytes();
    let mut out = Vec::new();
    let mut i = 0;
    while i < b.len() {
        if b[i] == b'\\' && i + 1 < b.len() {
            let c = b[i + 1];
            if c.is_ascii_digit() {
                let mut v: u32 = 0;
                let mut j = i + 1;
                let mut n = 0;
                while j < b.len() && n < 3 && (b'0'..=b'7').contains(&b[j]) {
                    v = v * 8 + (b[j] - b'0') as u32;
                    j += 1;
                    n += 1;
                }
                out.push(v as u8);
                i = j;
                continue;
            }
            out.push(match c {
                b'n' => b'\n',
                b't' => b'\t',
                b'r' => b'\r',
                other => other,
            });
            i += 2;
        } else {
            out.push(b[i]);
            i += 1;
        }
    }
    out
}

/// Quoted strings of one strace line's argument list.
fn quoted(args: &str) -> Vec<Vec<u8>> {
    let mut v = Vec::new();
    let b = args.as_bytes();
    let mut i = 0;
    while i < b.len() {
        if b[i] == b'"' {
            let mut j = i + 1;
            while j < b.len() && !(b[j] == b'"' && b[j - 1] != b'\\') {
                j += 1;
            }
            v.push(unescape_c(&args[i + 1..j.min(args.len())]));
            i = j + 1;
        } else {
            i += 1;
        }
    }
    v
}

/// Path-taking system calls of a traced restore that create or modify something:
/// {call, rel (components below the destination), inside, nofollow, ok}.
fn parse_strace(text: &str, dest: &Path) -> Vec<Value> {
    let destb = dest.as_os_str().to_string_lossy().to_string().into_bytes();
    let mut out = Vec::new();
    for line in text.lines() {
        let line = line.trim_start_matches(|c: char| c.is_ascii_digit() || c == ' ');
        let Some(par) = line.find('(') else { continue };
        let call = &line[..par];
        let Some(eq) = line.rfind(" = ") else { continue };
        if eq <= par {
            continue; // not a "call(args) = result" line (signal information, resumed calls, ...)
        }
        let args = &line[par + 1..eq];
        let ret = line[eq + 3..].trim();
        let ok = !ret.starts_with('-');
        let qs = quoted(args);
        let (paths, nofollow): (Vec<&Vec<u8>>, bool) = match call {
            "chmod" | "chown" | "utimes" | "truncate" | "creat" | "mkdir" | "rmdir" | "unlink" => (qs.iter().take(1).collect(), false),
            "lchown" => (qs.iter().take(1).collect(), true),
            "fchmodat" | "fchownat" | "utimensat" | "mkdirat" | "unlinkat" => {
                if qs.is_empty() {
                    continue; // fd-based (futimens etc.)
                }
                (qs.iter().take(1).collect(), args.contains("AT_SYMLINK_NOFOLLOW") || call == "mkdirat" || call == "unlinkat")
            }
            "symlink" | "symlinkat" => (qs.iter().skip(1).take(1).collect(), true),
            "rename" | "renameat" | "renameat2" | "link" | "linkat" => (qs.iter().collect(), true),
            "open" | "openat" => {
                if !(args.contains("O_WRONLY") || args.contains("O_RDWR") || args.contains("O_CREAT") || args.contains("O_TRUNC")) {
                    continue;
                }
                (qs.iter().take(1).collect(), args.contains("O_NOFOLLOW"))
            }
            _ => continue,
        };
        for p in paths {
            if p.starts_with(b"/dev/") || p.starts_with(b"/proc/") {
                continue;
            }
            let inside = p.starts_with(&destb) && (p.len() == destb.len() || p[destb.len()] == b'/');
            let rel: Vec<Vec<u8>> = if inside {
                p[destb.len()..].split(|c| *c == b'/').filter(|c| !c.is_empty()).map(|c| c.to_vec()).collect()
            } else {
                vec![]
            };
            out.push(json!({"call": call, "rel": rel, "inside": inside, "nofollow": nofollow, "ok": ok,
                            "path": String::from_utf8_lossy(p)}));
        }
    }
    out
}

/// The documented meaning of one exclusion pattern on one path, computed with globset directly:
/// a leading '/' anchors at the tree root, otherwise the pattern matches at any depth
/// (doc of src/excludes.rs); separators are literal.
pub fn base_match(patterns: &[String], apath: &str) -> bool {
    for pat in patterns {
        let full = if pat.starts_with('/') { pat.clone() } else { format!("**/{pat}") };
        if let Ok(g) = globset::GlobBuilder::new(&full).literal_separator(true).build() {
            if g.compile_matcher().is_match(apath) {
                return true;
            }
        }
    }
    false
}

fn match_facts(patterns: &[String], paths: &BTreeSet<Vec<Vec<u8>>>) -> Vec<Value> {
    if patterns.is_empty() {
        return vec![];
    }
    paths
        .iter()
        .filter(|p| !p.is_empty() && base_match(patterns, &tree::apath_string(p)))
        .map(|p| json!(p))
        .collect()
}

fn entry_to_json(e: &conserve::IndexEntry) -> Value {
    // Through serde's documented JSON form and then our own decoder of that form.
    let v = serde_json::to_vec(&vec![e]).unwrap();
    let comp = snap::raw::Encoder::new().compress_vec(&v).unwrap();
    let d = decode::decode_hunk(&comp);
    d["es"][0].clone()
}

impl Runner {
    pub fn new(work: &Path, log: Arc<Log>) -> Runner {
        Runner {
            work: work.to_path_buf(),
            arch: work.join("arch"),
            src: work.join("src"),
            log,
            src_tree: vec![],
            saved: vec![],
            session_on: false,
            session: Mutex::new(None),
            counter: 0,
            rt_flavor: "ct".into(),
            scen_id: String::new(),
            last_digest: None,
            mirror: None,
        }
    }

    fn fresh(&mut self, stem: &str) -> PathBuf {
        self.counter += 1;
        self.work.join(format!("{stem}{}", self.counter))
    }

    pub fn emit_fsck(&self) {
        if self.rt_flavor.ends_with("-nodrain") {
            // work left to spawned tasks may or may not have happened, and may still happen:
            // the projection is taken as it is (the `layout` event makes the validator adopt it)
            self.log.emit(json!({"ev": "layout"}));
        }
        self.log.emit(json!({"ev": "fsck", "fs": decode::fsck(&self.arch)}));
    }

    fn transport(&self, icpt: Arc<ActorIcpt>) -> Transport {
        Transport::local(&self.arch).with_interceptor(icpt)
    }

    /// All paths named by any index entry in the archive (own decoder) — domain of Match facts.
    fn archive_paths(&self) -> BTreeSet<Vec<Vec<u8>>> {
        let mut s = BTreeSet::new();
        let fsj = decode::fsck(&self.arch);
        for b in fsj["bands"].as_array().unwrap() {
            for h in b["hunks"].as_array().unwrap() {
                for e in h["es"].as_array().unwrap() {
                    let p: Vec<Vec<u8>> = serde_json::from_value(e["p"].clone()).unwrap_or_default();
                    // a pattern can match an ancestor that has no entry of its own
                    for i in 1..p.len() {
                        s.insert(p[..i].to_vec());
                    }
                    s.insert(p);
                }
            }
        }
        s
    }

    pub fn start_scenario(&mut self, sc: &Value) {
        tree::remove_tree(&self.work);
        fs::create_dir_all(&self.work).unwrap();
        self.saved.clear();
        self.src_tree.clear();
        self.last_digest = None;
        self.drop_mirror();
        self.counter = 0;
        self.scen_id = sc["id"].as_str().unwrap_or("?").to_string();
        self.rt_flavor = sc.get("rt").and_then(|x| x.as_str()).unwrap_or("ct").to_string();
        self.session_on = sc.get("session").and_then(|x| x.as_bool()).unwrap_or(false);
        *self.session.lock().unwrap() = None;
        // the process umask the operations of this scenario run under (what is restored does not depend on it)
        let um = sc.get("umask").and_then(|x| x.as_u64()).unwrap_or(0o022) as u32;
        nix::sys::stat::umask(nix::sys::stat::Mode::from_bits_truncate(um & 0o777));
        tree::NOW_BASE.store(now_s() as i64, std::sync::atomic::Ordering::SeqCst);
        tree::BIG.store(sc.get("mode").and_then(|x| x.as_str()) == Some("big"), std::sync::atomic::Ordering::SeqCst);
        self.log.emit(json!({"ev": "scenario", "id": self.scen_id, "props": sc.get("props").cloned().unwrap_or(json!([])),
                             "mode": sc.get("mode").and_then(|x| x.as_str()).unwrap_or("clean")}));
        if sc.get("no_create").and_then(|x| x.as_bool()).unwrap_or(false) {
            return;
        }
        let icpt = ActorIcpt::new("init", &self.arch, self.log.clone(), Plan::default(), None);
        let mon = TestMonitor::arc();
        let arch = self.arch.clone();
        let t = Transport::local(&arch).with_interceptor(icpt);
        let out = run_call(&self.rt_flavor, &mon, || async move { Archive::create(t).await.map(|_| ()).map_err(|e| err_name(&e)) });
        self.log.emit(json!({"ev": "created", "res": out.res, "panic": out.panic}));
        self.emit_fsck();
    }

    pub fn run_steps(&mut self, steps: &[Value]) {
        for st in steps {
            self.run_step(st);
        }
    }

    pub fn run_step(&mut self, st: &Value) {
        let op = st["op"].as_str().unwrap_or("");
        match op {
            "tree" => {
                let nodes: Vec<Node> = serde_json::from_value(st["tree"].clone()).expect("tree");
                self.set_tree(&nodes);
            }
            "backup" => {
                if let Some(k) = st.get("crash_from_end").and_then(|x| x.as_u64()) {
                    // a kill k storage verbs before the end of the run: learn its length first
                    self.do_save();
                    let verbs = self.do_backup(st, Plan::default(), None);
                    self.do_reset();
                    self.do_unsave();
                    let mut plan = plan_of(st);
                    plan.crash_at = Some(verbs.len().saturating_sub(k as usize));
                    self.do_backup(st, plan, None);
                } else {
                    self.do_backup(st, plan_of(st), None);
                }
            }
            "delete" => {
                self.do_delete(st, plan_of(st), None);
            }
            "restore" => self.do_restore(st),
            "restore_all" => self.do_restore_all(st),
            "list" => self.do_list(st),
            "list_all" => self.do_list_all(st),
            "versions" => self.do_versions(),
            "validate" => self.do_validate(st),
            "diff" => self.do_diff(st),
            "damage" => self.do_damage(st),
            "save" => self.do_save(),
            "reset" => self.do_reset(),
            "sweep" => self.do_sweep(st),
            "concurrent" => crate::conc::do_concurrent(self, st),
            "conc_sweep" => crate::conc::do_conc_sweep(self, st),
            "layout" => crate::layout::do_layout(self, st),
            "fsck" => self.emit_fsck(),
            "probe_write" => self.do_probe_write(st),
            "apath_table" => self.do_apath_table(st),
            "damage_sweep" => self.do_damage_sweep(st),
            "outside" => self.do_outside(st),
            "new_archive" => self.do_new_archive(st),
            "archive_digest" => self.do_archive_digest(st),
            "walk" => self.do_walk(st),
            "bulk_probe" => self.do_bulk_probe(st),
            "leftover_block" => self.do_leftover_block(st),
            "bulk_history" => self.do_bulk_history(st),
            "age_files" => self.do_age_files(st),
            "legacy_tails" => self.do_legacy_tails(st),
            other => panic!("unknown step op {other}"),
        }
    }

    /// Rewrite the tails of the archive's complete versions (all, or those named in `bands`) the
    /// way releases before 0.6.4 wrote them: without a hunk count. The archive is then what such
    /// a release would have left; every later step is judged as usual.
    fn do_legacy_tails(&mut self, st: &Value) {
        let only: Option<Vec<u64>> = st.get("bands").and_then(|x| x.as_array()).map(|a| a.iter().filter_map(|x| x.as_u64()).collect());
        let mut n = 0;
        if let Ok(rd) = fs::read_dir(&self.arch) {
            for e in rd.flatten() {
                let name = e.file_name().to_string_lossy().into_owned();
                let Some(id) = name.strip_prefix('b').and_then(|x| x.parse::<u64>().ok()) else { continue };
                if only.as_ref().is_some_and(|o| !o.contains(&id)) {
                    continue;
                }
                let tail = e.path().join("BANDTAIL");
                let Ok(bytes) = fs::read(&tail) else { continue };
                let Ok(mut v) = serde_json::from_slice::<Value>(&bytes) else { continue };
                if v.as_object_mut().and_then(|o| o.remove("index_hunk_count")).is_some() {
                    fs::write(&tail, serde_json::to_vec(&v).unwrap()).unwrap();
                    n += 1;
                }
            }
        }
        self.log.emit(json!({"ev": "note", "what": "legacy_tails", "n": n}));
        self.log.emit(json!({"ev": "layout"}));
        self.emit_fsck();
    }

    /// Time passes: every file and directory of the archive gets a modification time `days` days in
    /// the past (archives live for years; nothing in the format depends on the age of its files).
    fn do_age_files(&mut self, st: &Value) {
        let days = st.get("days").and_then(|x| x.as_i64()).unwrap_or(400);
        let when = filetime::FileTime::from_unix_time(now_s() as i64 - days * 86_400, 0);
        fn walk(dir: &Path, when: filetime::FileTime, n: &mut u64) {
            if let Ok(rd) = fs::read_dir(dir) {
                for e in rd.flatten() {
                    let p = e.path();
                    if e.file_type().map(|t| t.is_dir()).unwrap_or(false) {
                        walk(&p, when, n);
                    }
                    if filetime::set_file_times(&p, when, when).is_ok() {
                        *n += 1;
                    }
                }
            }
        }
        let mut n = 0;
        walk(&self.arch, when, &mut n);
        self.log.emit(json!({"ev": "note", "what": "age_files", "days": days, "n": n}));
    }

    /// Sentinel files and directories beside the restore destinations (C16). Symlink targets in
    /// later trees may name them through the placeholder `@OUTSIDE@` (their absolute path).
    fn do_outside(&mut self, st: &Value) {
        let nodes: Vec<Node> = serde_json::from_value(st["tree"].clone()).expect("outside tree");
        tree::materialize(&self.work.join("outside"), &nodes).expect("materialize outside");
        self.log.emit(json!({"ev": "note", "what": "outside"}));
    }

    /// Throw the archive away and start a new one, optionally under another runtime flavour (C17).
    fn do_new_archive(&mut self, st: &Value) {
        if let Some(f) = st.get("rt").and_then(|x| x.as_str()) {
            self.rt_flavor = f.to_string();
        }
        // (a replay may start later on the wall clock than the one before it)
        if let Some(ms) = st.get("sleep_ms").and_then(|x| x.as_u64()) {
            std::thread::sleep(std::time::Duration::from_millis(ms));
        }
        tree::remove_tree(&self.arch);
        *self.session.lock().unwrap() = None;
        self.log.emit(json!({"ev": "new_archive", "rt": self.rt_flavor}));
        let icpt = ActorIcpt::new("init", &self.arch, self.log.clone(), Plan::default(), None);
        let mon = TestMonitor::arc();
        let t = Transport::local(&self.arch).with_interceptor(icpt);
        let out = run_call(&self.rt_flavor, &mon, || async move { Archive::create(t).await.map(|_| ()).map_err(|e| err_name(&e)) });
        self.log.emit(json!({"ev": "created", "res": out.res, "panic": out.panic}));
        self.emit_fsck();
    }

    /// Byte-level picture of the archive directory: relative path -> digest of the bytes, with the
    /// start/end timestamps of band heads and tails masked. Compared with the previous picture
    /// taken in this scenario (if any).
    fn do_archive_digest(&mut self, _st: &Value) {
        let dir = self.arch.clone();
        self.digest_dir(&dir);
    }

    /// One replay, inside the harness, of a history too large to log verb by verb: `nfiles` one-byte
    /// files backed up with one entry per hunk (more than one index sub-directory), then once more,
    /// unchanged, with the default settings; into a fresh side archive under the given runtime
    /// flavour. Its byte picture is compared with that of the previous replay of the scenario.
    fn do_bulk_history(&mut self, st: &Value) {
        let nfiles = st.get("nfiles").and_then(|x| x.as_u64()).unwrap_or(10_040) as usize;
        let flavor = st.get("rt").and_then(|x| x.as_str()).unwrap_or("ct").to_string();
        let src = self.fresh("bulkh_src");
        let arch = self.fresh("bulkh_arch");
        fs::create_dir_all(&src).unwrap();
        for i in 0..nfiles {
            let p = src.join(format!("f{i:06}"));
            fs::write(&p, [(i % 251) as u8 + 1]).unwrap();
            let ft = filetime::FileTime::from_unix_time(1_600_000_000 + i as i64, 0);
            filetime::set_file_times(&p, ft, ft).unwrap();
        }
        let ft = filetime::FileTime::from_unix_time(1_600_000_000, 0);
        filetime::set_file_times(&src, ft, ft).unwrap();
        let mon = TestMonitor::arc();
        let mon2 = mon.clone();
        let (arch2, src2) = (arch.clone(), src.clone());
        EXTRA_TIMEOUT_S.store(120, Ordering::SeqCst);
        // storage verbs are not logged (tens of thousands); one may be made slow: {"slow": [verb, path suffix, ms]}
        let mut plan = Plan::default();
        if let Some(a) = st.get("slow").and_then(|x| x.as_array()) {
            if let (Some(v), Some(p), Some(ms)) = (a.first().and_then(|x| x.as_str()), a.get(1).and_then(|x| x.as_str()), a.get(2).and_then(|x| x.as_u64())) {
                plan.stall_paths.push((v.to_string(), p.to_string(), ms));
            }
        }
        fs::create_dir_all(&arch).unwrap();
        let was_muted = self.log.set_muted(true);
        let _ = was_muted;
        let icpt = ActorIcpt::new("bulk", &arch, self.log.clone(), plan, None);
        let out = run_call(&flavor, &mon, || async move {
            let archive = Archive::create(Transport::local(&arch2).with_interceptor(icpt)).await.map_err(|e| err_name(&e))?;
            let options = BackupOptions { max_entries_per_hunk: 1, ..BackupOptions::default() };
            conserve::backup(&archive, &src2, &options, mon2.clone()).await.map_err(|e| err_name(&e))?;
            conserve::backup(&archive, &src2, &BackupOptions::default(), mon2).await.map_err(|e| err_name(&e))
        });
        self.log.set_muted(false);
        self.log.emit(json!({"ev": "note", "what": "bulk_history", "rt": flavor, "res": out.res, "panic": out.panic, "errors": out.mon_errors.len()}));
        self.digest_dir(&arch);
        tree::remove_tree(&src);
        tree::remove_tree(&arch);
    }

    fn digest_dir(&mut self, root: &Path) {
        fn walk(dir: &Path, rel: &str, out: &mut Vec<(String, String)>) {
            let mut names: Vec<_> = fs::read_dir(dir).map(|rd| rd.flatten().collect::<Vec<_>>()).unwrap_or_default();
            names.sort_by_key(|e| e.file_name());
            for e in names {
                let name = e.file_name().to_string_lossy().to_string();
                let r = if rel.is_empty() { name.clone() } else { format!("{rel}/{name}") };
                if e.file_type().map(|t| t.is_dir()).unwrap_or(false) {
                    out.push((format!("{r}/"), String::new()));
                    walk(&e.path(), &r, out);
                } else {
                    let mut bytes = fs::read(e.path()).unwrap_or_default();
                    if name == "BANDHEAD" || name == "BANDTAIL" {
                        if let Ok(mut v) = serde_json::from_slice::<Value>(&bytes) {
                            if let Some(o) = v.as_object_mut() {
                                for k in ["start_time", "end_time"] {
                                    if o.contains_key(k) {
                                        o.insert(k.to_string(), json!(0));
                                    }
                                }
                            }
                            bytes = serde_json::to_vec(&v).unwrap();
                        }
                    }
                    out.push((r, hex::encode(blake2_rfc::blake2b::blake2b(16, &[], &bytes).as_bytes())));
                }
            }
        }
        let mut cur = Vec::new();
        walk(root, "", &mut cur);
        let (equal, diffs) = match &self.last_digest {
            None => (true, vec![]),
            Some(prev) => {
                let a: std::collections::BTreeMap<_, _> = prev.iter().cloned().collect();
                let b: std::collections::BTreeMap<_, _> = cur.iter().cloned().collect();
                let mut d: Vec<String> = Vec::new();
                for (k, v) in &a {
                    if b.get(k) != Some(v) {
                        d.push(k.clone());
                    }
                }
                for k in b.keys() {
                    if !a.contains_key(k) {
                        d.push(k.clone());
                    }
                }
                d.sort();
                d.dedup();
                (d.is_empty(), d)
            }
        };
        let first = self.last_digest.is_none();
        self.last_digest = Some(cur.clone());
        self.log.emit(json!({"ev": "digest", "first": first, "equal": equal, "diffs": diffs, "nfiles": cur.len(), "rt": self.rt_flavor}));
        self.emit_fsck();
    }

    pub fn set_tree(&mut self, nodes: &[Node]) {
        // `@OUTSIDE@` in a symlink target stands for the absolute path of the sentinel area
        let outside = self.work.join("outside").to_string_lossy().to_string();
        // a path component `@MIRROR@` (under `/tmp`) stands for a name unique to this run; the same
        // absolute path is then created on the host, with a sentinel file for every file below it
        let has_mirror = nodes.iter().any(|n| n.p.len() >= 2 && n.p[0] == b"tmp" && n.p[1] == b"@MIRROR@");
        let mirror_name = format!("cvmirror-{}-{}", std::process::id(), self.counter);
        let nodes: Vec<Node> = nodes
            .iter()
            .map(|n| {
                let mut n = n.clone();
                if n.k == "Symlink" {
                    let t = String::from_utf8_lossy(&n.t).replace("@OUTSIDE@", &outside);
                    n.t = t.into_bytes();
                }
                if has_mirror {
                    for c in n.p.iter_mut() {
                        if c == b"@MIRROR@" {
                            *c = mirror_name.as_bytes().to_vec();
                        }
                    }
                }
                n
            })
            .collect();
        let nodes = &nodes[..];
        tree::materialize(&self.src, nodes).expect("materialize source tree");
        if has_mirror {
            self.drop_mirror();
            let root = PathBuf::from("/tmp").join(&mirror_name);
            fs::create_dir_all(&root).expect("mirror root");
            for n in nodes {
                if n.p.len() >= 3 && n.p[0] == b"tmp" && n.p[1] == mirror_name.as_bytes() {
                    let host = PathBuf::from("/").join(n.rel_path());
                    match n.k.as_str() {
                        "Dir" => {
                            let _ = fs::create_dir_all(&host);
                        }
                        "File" => {
                            if let Some(parent) = host.parent() {
                                let _ = fs::create_dir_all(parent);
                            }
                            let _ = fs::write(&host, b"precious: a file of this machine, not of the backup");
                        }
                        _ => {}
                    }
                }
            }
            self.mirror = Some(root);
        }
        // the projection of what is really there is what counts
        self.src_tree = tree::project_source(&self.src).expect("project source");
        self.log.emit(json!({"ev": "src", "tree": tree::tree_json(&self.src_tree)}));
    }

    pub fn finish_scenario(&mut self) {
        self.drop_mirror();
    }

    fn drop_mirror(&mut self) {
        if let Some(m) = self.mirror.take() {
            if m.starts_with("/tmp") && m.file_name().map(|n| n.to_string_lossy().starts_with("cvmirror-")).unwrap_or(false) {
                tree::remove_tree(&m);
            }
        }
    }

    /// Digest of everything watched outside a restore destination: the sentinel area and the host mirror.
    fn watched_digest(&self) -> String {
        let outside = self.work.join("outside");
        let mut d = if outside.exists() { tree::digest(&tree::project(&outside).unwrap()) } else { String::new() };
        if let Some(m) = &self.mirror {
            d.push('+');
            d.push_str(&tree::digest(&tree::project(m).unwrap_or_default()));
        }
        d
    }

    pub fn do_save(&mut self) {
        let dst = self.fresh("saved");
        copy_dir(&self.arch, &dst).expect("save archive");
        self.saved.push((dst, self.src_tree.clone()));
        self.log.emit(json!({"ev": "save"}));
    }

    pub fn do_unsave(&mut self) {
        if let Some((dir, _)) = self.saved.pop() {
            tree::remove_tree(&dir);
        }
        self.log.emit(json!({"ev": "unsave"}));
    }

    pub fn do_reset(&mut self) {
        let (dir, t) = self.saved.last().cloned().expect("reset without save");
        tree::remove_tree(&self.arch);
        copy_dir(&dir, &self.arch).expect("restore saved archive");
        if t != self.src_tree {
            tree::materialize(&self.src, &t).expect("re-materialize");
            self.src_tree = tree::project_source(&self.src).unwrap();
        }
        *self.session.lock().unwrap() = None;
        self.log.emit(json!({"ev": "reset"}));
    }

    pub fn backup_options(st: &Value) -> (usize, usize, u64, Vec<String>, bool) {
        let h = st.get("H").and_then(|x| x.as_u64()).unwrap_or(100_000) as usize;
        let m = st.get("M").and_then(|x| x.as_u64()).unwrap_or(20 << 20) as usize;
        let s = st.get("S").and_then(|x| x.as_u64()).unwrap_or(1 << 20);
        let excl = str_list(st.get("excl"));
        let owner = st.get("owner").and_then(|x| x.as_bool()).unwrap_or(true);
        (h, m, s, excl, owner)
    }

    /// Run a backup of the current source. Returns the issued verbs of the call.
    /// The Archive a backup/delete step runs on: the session handle (opened on first use, its
    /// interceptor switched to this call's) or None for a fresh open.
    fn session_archive(&self, st: &Value, icpt: &Arc<ActorIcpt>) -> Option<(Archive, Arc<crate::intercept::SwitchIcpt>)> {
        if !self.session_on || st.get("fresh").and_then(|x| x.as_bool()).unwrap_or(false) {
            return None;
        }
        let mut g = self.session.lock().unwrap();
        if g.is_none() {
            let sw = Arc::new(crate::intercept::SwitchIcpt::default());
            sw.set(Some(icpt.clone()));
            let t = Transport::local(&self.arch).with_interceptor(sw.clone());
            let mon = TestMonitor::arc();
            let out = run_call(&self.rt_flavor, &mon, || async move { Archive::open(t).await.map_err(|e| err_name(&e)) });
            match out.val {
                Some(a) => *g = Some((a, sw)),
                None => return None,
            }
        }
        let (a, sw) = g.as_ref().unwrap().clone();
        sw.set(Some(icpt.clone()));
        Some((a, sw))
    }

    pub fn do_backup(&self, st: &Value, plan: Plan, sched: Option<Arc<Sched>>) -> Vec<String> {
        self.do_backup_from(st, plan, sched, &self.src, &self.src_tree, false)
    }

    /// Back up the tree at `src_dir` (whose projection is `src_tree`). With `own_tree` the call
    /// event carries the tree (actors of a concurrent step have their own sources).
    pub fn do_backup_from(&self, st: &Value, plan: Plan, sched: Option<Arc<Sched>>, src_dir: &Path, src_tree: &[Node], own_tree: bool) -> Vec<String> {
        let actor = st.get("actor").and_then(|x| x.as_str()).unwrap_or("bk").to_string();
        let (h, m, s, excl, owner) = Self::backup_options(st);
        let src_paths: BTreeSet<Vec<Vec<u8>>> = src_tree.iter().map(|n| n.p.clone()).collect();
        let injected = plan.crash_at.is_some() || !plan.fail.is_empty() || plan.fail_p > 0.0 || !plan.fail_paths.is_empty();
        self.log.emit(json!({"ev": "call", "actor": actor, "fn": "backup", "brk": false, "follow": !tree::BIG.load(std::sync::atomic::Ordering::SeqCst) && st.get("mutate_during").is_none(), "H": h.min(1_000_000_000), "M": m.min(1_000_000_000),
            "S": s.min(1_000_000_000), "excl": excl, "match": match_facts(&excl, &src_paths), "owner": owner,
            "bands": [], "dry": false, "injected": injected, "own_tree": own_tree,
            "tree": if own_tree { tree::tree_json(src_tree) } else { json!([]) }}));
        let icpt = ActorIcpt::new(&actor, &self.arch, self.log.clone(), plan, sched.clone());
        let mon = TestMonitor::arc();
        let changes: Arc<Mutex<Vec<Value>>> = Arc::new(Mutex::new(vec![]));
        let t = self.transport(icpt.clone());
        let src = src_dir.to_path_buf();
        let mon2 = mon.clone();
        let ch2 = changes.clone();
        let excl2 = excl.clone();
        // the source changing under the backup: when the change callback fires for `after`, the file
        // `path` (relative to the source) is cut to `len` bytes, or removed when len < 0
        let during: Vec<(String, PathBuf, i64)> = st.get("mutate_during").and_then(|x| x.as_array()).map(|a| {
            a.iter().filter_map(|m| Some((m["after"].as_str()?.to_string(), src_dir.join(m["path"].as_str()?.trim_start_matches('/')), m["len"].as_i64()?))).collect()
        }).unwrap_or_default();
        let sess = self.session_archive(st, &icpt);
        let sess_a = sess.as_ref().map(|x| x.0.clone());
        let out = run_call(&self.rt_flavor, &mon, || async move {
            let archive = match sess_a {
                Some(a) => a,
                None => Archive::open(t).await.map_err(|e| err_name(&e))?,
            };
            let exclude = Exclude::from_strings(excl2.iter()).map_err(|e| err_name(&e))?;
            let options = BackupOptions {
                exclude,
                max_entries_per_hunk: h,
                max_block_size: m,
                small_file_cap: s,
                owner,
                change_callback: Some(Box::new(move |ec| {
                    let v = serde_json::to_value(ec).unwrap_or(json!({}));
                    ch2.lock().unwrap().push(json!({"p": tree::comps_of(v["apath"].as_str().unwrap_or("/")),
                                                    "ch": v["change"].as_str().unwrap_or("?")}));
                    for (after, path, len) in &during {
                        if v["apath"].as_str() == Some(after.as_str()) {
                            if *len < 0 {
                                let _ = fs::remove_file(path);
                            } else if let Ok(f) = fs::OpenOptions::new().write(true).open(path) {
                                let _ = f.set_len(*len as u64);
                            }
                        }
                    }
                    Ok(())
                })),
            };
            conserve::backup(&archive, &src, &options, mon2).await.map_err(|e| err_name(&e))
        });
        if let Some((_, sw)) = &sess {
            sw.set(None);
        }
        if let Some(s) = &sched {
            s.mark_done(&actor);
        }
        let stats = out.val.as_ref();
        let frozen = icpt.is_frozen();
        self.log.emit(json!({"ev": "ret", "actor": actor, "fn": "backup", "res": out.res, "panic": out.panic, "pmsg": out.panic_msg,
            "timeout": out.timeout, "crashed": frozen,
            "errors": stats.map(|s| s.errors as i64).unwrap_or(-1),
            "mon_errors": out.mon_errors.len(), "mon_list": out.mon_errors,
            "written_blocks": stats.map(|s| s.written_blocks as i64).unwrap_or(-1),
            "dedup_blocks": stats.map(|s| s.deduplicated_blocks as i64).unwrap_or(-1),
            "unmodified_files": stats.map(|s| s.unmodified_files as i64).unwrap_or(-1),
            "modified_files": stats.map(|s| s.modified_files as i64).unwrap_or(-1),
            "new_files": stats.map(|s| s.new_files as i64).unwrap_or(-1),
            "files": stats.map(|s| s.files as i64).unwrap_or(-1),
            "deleted_bands": -1, "deleted_blocks": -1, "unref_blocks": -1,
            "changes": changes.lock().unwrap().clone(), "ms": out.ms}));
        if sched.is_none() {
            self.emit_fsck();
        }
        icpt.issued().0
    }

    pub fn do_delete(&self, st: &Value, plan: Plan, sched: Option<Arc<Sched>>) -> Vec<String> {
        let actor = st.get("actor").and_then(|x| x.as_str()).unwrap_or("gc").to_string();
        let bands: Vec<u32> = st.get("bands").and_then(|x| x.as_array()).map(|a| a.iter().filter_map(|x| x.as_u64().map(|n| n as u32)).collect()).unwrap_or_default();
        let dry = st.get("dry").and_then(|x| x.as_bool()).unwrap_or(false);
        let break_lock = st.get("break_lock").and_then(|x| x.as_bool()).unwrap_or(false);
        let injected = plan.crash_at.is_some() || !plan.fail.is_empty() || plan.fail_p > 0.0 || !plan.fail_paths.is_empty();
        self.log.emit(json!({"ev": "call", "actor": actor, "fn": "delete", "brk": break_lock, "follow": true, "H": 0, "M": 0, "S": 0, "excl": [], "match": [], "owner": true,
            "bands": bands, "dry": dry, "injected": injected, "own_tree": false, "tree": []}));
        let icpt = ActorIcpt::new(&actor, &self.arch, self.log.clone(), plan, sched.clone());
        let mon = TestMonitor::arc();
        let t = self.transport(icpt.clone());
        let mon2 = mon.clone();
        let ids: Vec<BandId> = bands.iter().map(|b| BandId::new(&[*b])).collect();
        let sess = self.session_archive(st, &icpt);
        let sess_a = sess.as_ref().map(|x| x.0.clone());
        let out = run_call(&self.rt_flavor, &mon, || async move {
            let archive = match sess_a {
                Some(a) => a,
                None => Archive::open(t).await.map_err(|e| err_name(&e))?,
            };
            archive.delete_bands(&ids, &DeleteOptions { dry_run: dry, break_lock }, mon2).await.map_err(|e| err_name(&e))
        });
        if let Some((_, sw)) = &sess {
            sw.set(None);
        }
        if let Some(s) = &sched {
            s.mark_done(&actor);
        }
        let stats = out.val.as_ref();
        self.log.emit(json!({"ev": "ret", "actor": actor, "fn": "delete", "res": out.res, "panic": out.panic, "pmsg": out.panic_msg,
            "timeout": out.timeout, "crashed": icpt.is_frozen(),
            "errors": stats.map(|s| s.deletion_errors as i64).unwrap_or(-1),
            "mon_errors": out.mon_errors.len(), "mon_list": out.mon_errors,
            "written_blocks": -1, "dedup_blocks": -1, "unmodified_files": -1, "modified_files": -1, "new_files": -1, "files": -1,
            "deleted_bands": stats.map(|s| s.deleted_band_count as i64).unwrap_or(-1),
            "deleted_blocks": stats.map(|s| s.deleted_block_count as i64).unwrap_or(-1),
            "unref_blocks": stats.map(|s| s.unreferenced_block_count as i64).unwrap_or(-1),
            "changes": [], "ms": out.ms}));
        if sched.is_none() {
            self.emit_fsck();
        }
        icpt.issued().0
    }

    pub fn policy(band: i64) -> BandSelectionPolicy {
        match band {
            -1 => BandSelectionPolicy::LatestClosed,
            -2 => BandSelectionPolicy::Latest,
            b => BandSelectionPolicy::Specified(BandId::new(&[b as u32])),
        }
    }

    fn reader_icpt(&self) -> Arc<ActorIcpt> {
        ActorIcpt::new("rd", &self.arch, self.log.clone(), Plan::default(), None)
    }

    /// Restore band (-1 latest closed, -2 latest) and log the restored tree.
    pub fn do_restore(&mut self, st: &Value) {
        let band = st.get("band").and_then(|x| x.as_i64()).unwrap_or(-1);
        let subtree = st.get("subtree").and_then(|x| x.as_str()).unwrap_or("").to_string();
        let excl = str_list(st.get("excl"));
        let overwrite = st.get("overwrite").and_then(|x| x.as_bool()).unwrap_or(false);
        let dest_kind = st.get("dest").and_then(|x| x.as_str()).unwrap_or("fresh").to_string();
        let dest = self.fresh("restore");
        let outside = self.work.join("outside");
        match dest_kind.as_str() {
            "absent" => {}
            "nonempty" => {
                fs::create_dir_all(&dest).unwrap();
                // what the destination already holds: one entry of the given kind and name
                let name_bytes: Vec<u8> = st.get("holds_name").and_then(|x| x.as_array())
                    .map(|a| a.iter().filter_map(|b| b.as_u64().map(|b| b as u8)).collect())
                    .unwrap_or_else(|| b"preexisting".to_vec());
                let name = std::ffi::OsStr::from_bytes(&name_bytes);
                let at = dest.join(name);
                match st.get("holds").and_then(|x| x.as_str()).unwrap_or("file") {
                    "symlink_out" => std::os::unix::fs::symlink(outside.join("sentinel_file"), &at).unwrap(),
                    "symlink_dir_out" => std::os::unix::fs::symlink(outside.join("sentinel_dir"), &at).unwrap(),
                    "dangling" => std::os::unix::fs::symlink("nowhere/at/all", &at).unwrap(),
                    "emptydir" => fs::create_dir(&at).unwrap(),
                    "emptyfile" => fs::write(&at, b"").unwrap(),
                    "fifo" => {
                        let ok = std::process::Command::new("mkfifo").arg(&at).status().map(|s| s.success()).unwrap_or(false);
                        if !ok {
                            fs::write(&at, b"keep me").unwrap();
                        }
                    }
                    _ => fs::write(&at, b"keep me").unwrap(),
                }
            }
            _ => fs::create_dir_all(&dest).unwrap(),
        }
        let dest_before = if dest_kind == "nonempty" { tree::digest(&tree::project(&dest).unwrap()) } else { String::new() };
        let outside_before = self.watched_digest();
        let paths = self.archive_paths();
        let mfacts = match_facts(&excl, &paths);
        let traced = st.get("strace").and_then(|x| x.as_bool()).unwrap_or(false);
        let mut syscalls: Vec<Value> = Vec::new();
        let icpt = self.reader_icpt();
        let mon = TestMonitor::arc();
        let t = self.transport(icpt);
        let mon2 = mon.clone();
        let dest2 = dest.clone();
        let excl2 = excl.clone();
        let subtree2 = subtree.clone();
        let picked: Arc<Mutex<i64>> = Arc::new(Mutex::new(-1));
        let picked2 = picked.clone();
        let out = if traced {
            // the restore runs in a child process under strace; every path-taking call is recorded
            let sfile = self.fresh("strace");
            let exe = std::env::current_exe().unwrap();
            let mut cmd = std::process::Command::new("strace");
            cmd.args(["-f", "-qq", "-s", "4096", "-e",
                      "trace=chmod,fchmodat,chown,lchown,fchownat,utimensat,utimes,symlink,symlinkat,mkdir,mkdirat,openat,open,creat,unlink,unlinkat,rmdir,rename,renameat,renameat2,link,linkat,truncate",
                      "-o"]).arg(&sfile).arg(&exe).arg("restore1").arg(&self.arch).arg(band.to_string()).arg(&dest)
               .arg(if subtree.is_empty() { "-" } else { subtree.as_str() }).arg(if overwrite { "1" } else { "0" }).args(&excl);
            let start = Instant::now();
            let o = cmd.output();
            let mut co = CallOut { val: None, res: "err:Strace".into(), panic: false, panic_msg: String::new(), timeout: false, mon_errors: vec![], ms: 0 };
            if let Ok(o) = o {
                let so = String::from_utf8_lossy(&o.stdout);
                if let Some(line) = so.lines().last() {
                    if let Ok(v) = serde_json::from_str::<Value>(line) {
                        co.res = v["res"].as_str().unwrap_or("err:Strace").to_string();
                        co.panic = v["panic"].as_bool().unwrap_or(false);
                        co.panic_msg = v["pmsg"].as_str().unwrap_or("").to_string();
                        co.timeout = v["timeout"].as_bool().unwrap_or(false);
                        co.mon_errors = v["mon_list"].as_array().map(|a| a.iter().filter_map(|x| x.as_str().map(|s| s.to_string())).collect()).unwrap_or_default();
                        if co.res == "ok" {
                            co.val = Some(());
                        }
                    }
                }
            }
            co.ms = start.elapsed().as_millis() as u64;
            syscalls = parse_strace(&fs::read_to_string(&sfile).unwrap_or_default(), &dest);
            let _ = fs::remove_file(&sfile);
            // which band "latest" resolves to, asked separately (not traced)
            let t3 = Transport::local(&self.arch);
            let mon3 = TestMonitor::arc();
            let pk = picked.clone();
            let _ = run_call("ct", &mon3, || async move {
                let archive = Archive::open(t3).await.map_err(|e| err_name(&e))?;
                if let Ok(id) = archive.resolve_band_id(Self::policy(band)).await {
                    *pk.lock().unwrap() = id.to_string()[1..].parse::<i64>().unwrap_or(-1);
                }
                Ok(())
            });
            co
        } else { run_call(&self.rt_flavor, &mon, || async move {
            let archive = Archive::open(t).await.map_err(|e| err_name(&e))?;
            if let Ok(id) = archive.resolve_band_id(Self::policy(band)).await {
                *picked2.lock().unwrap() = id.to_string()[1..].parse::<i64>().unwrap_or(-1);
            }
            let options = RestoreOptions {
                exclude: Exclude::from_strings(excl2.iter()).map_err(|e| err_name(&e))?,
                only_subtree: if subtree2.is_empty() { None } else { Some(Apath::from(subtree2.as_str())) },
                overwrite,
                band_selection: Self::policy(band),
                change_callback: None,
                inject_failures: HashMap::new(),
            };
            conserve::restore(&archive, &dest2, options, mon2).await.map_err(|e| err_name(&e))
        }) };
        let restored = tree::project(&dest).unwrap_or_default();
        let dest_after = if dest_kind == "nonempty" { tree::digest(&restored) } else { String::new() };
        let outside_after = self.watched_digest();
        self.log.emit(json!({"ev": "obs", "what": "restore", "band": band, "picked": *picked.lock().unwrap(),
            "subtree": tree::comps_of(&subtree), "has_subtree": !subtree.is_empty(), "match": mfacts, "excl": excl,
            "overwrite": overwrite, "dest": dest_kind, "res": out.res, "panic": out.panic, "pmsg": out.panic_msg, "timeout": out.timeout,
            "mon_errors": out.mon_errors.len(), "mon_list": out.mon_errors,
            "tree": tree::tree_json(&restored), "entries": [], "quick": false, "versions": [], "changes": [],
            "dest_unchanged": dest_before == dest_after, "outside_unchanged": outside_before == outside_after, "ms": out.ms,
            "traced": traced, "syscalls": syscalls}));
        tree::remove_tree(&dest);
    }

    fn band_dirs(&self) -> Vec<i64> {
        let fsj = decode::fsck(&self.arch);
        fsj["bands"].as_array().unwrap().iter().map(|b| b["id"].as_i64().unwrap()).collect()
    }

    /// Restore every band that has a directory, by id, and the latest complete one.
    fn do_restore_all(&mut self, st: &Value) {
        let with_latest = st.get("latest").and_then(|x| x.as_bool()).unwrap_or(true);
        for b in self.band_dirs() {
            self.do_restore(&json!({"band": b}));
        }
        if with_latest {
            self.do_restore(&json!({"band": -1}));
        }
    }

    fn do_list_all(&mut self, _st: &Value) {
        for b in self.band_dirs() {
            self.do_list(&json!({"band": b}));
        }
    }

    pub fn do_list(&mut self, st: &Value) {
        let band = st.get("band").and_then(|x| x.as_i64()).unwrap_or(-1);
        let subtree = st.get("subtree").and_then(|x| x.as_str()).unwrap_or("").to_string();
        let excl = str_list(st.get("excl"));
        let paths = self.archive_paths();
        let mfacts = match_facts(&excl, &paths);
        let icpt = self.reader_icpt();
        let mon = TestMonitor::arc();
        let t = self.transport(icpt);
        let mon2 = mon.clone();
        let excl2 = excl.clone();
        let subtree2 = subtree.clone();
        let out = run_call(&self.rt_flavor, &mon, || async move {
            let archive = Archive::open(t).await.map_err(|e| err_name(&e))?;
            let exclude = Exclude::from_strings(excl2.iter()).map_err(|e| err_name(&e))?;
            let sub = if subtree2.is_empty() { Apath::root() } else { Apath::from(subtree2.as_str()) };
            let mut stitch = archive.iter_entries(Self::policy(band), sub, exclude, mon2).await.map_err(|e| err_name(&e))?;
            let mut v = Vec::new();
            while let Some(e) = stitch.next().await {
                v.push(entry_to_json(&e));
                if v.len() > 100_000 {
                    return Err("err:Unbounded".to_string());
                }
            }
            Ok(v)
        });
        self.log.emit(json!({"ev": "obs", "what": "list", "band": band, "picked": band,
            "subtree": tree::comps_of(&subtree), "has_subtree": !subtree.is_empty(), "match": mfacts, "excl": excl,
            "overwrite": false, "dest": "", "res": out.res, "panic": out.panic, "pmsg": out.panic_msg, "timeout": out.timeout,
            "mon_errors": out.mon_errors.len(), "mon_list": out.mon_errors,
            "tree": [], "entries": out.val.unwrap_or_default(), "quick": false, "versions": [], "changes": [],
            "dest_unchanged": true, "outside_unchanged": true, "ms": out.ms}));
    }

    fn do_versions(&mut self) {
        let icpt = self.reader_icpt();
        let mon = TestMonitor::arc();
        let t = self.transport(icpt);
        let out = run_call(&self.rt_flavor, &mon, || async move {
            let archive = Archive::open(t).await.map_err(|e| err_name(&e))?;
            let ids = archive.list_band_ids().await.map_err(|e| err_name(&e))?;
            let mut v = Vec::new();
            for id in ids {
                let closed = archive.band_is_closed(id).await.unwrap_or(false);
                let n: i64 = id.to_string()[1..].parse().unwrap_or(-1);
                v.push(json!({"id": n, "closed": closed}));
            }
            Ok(v)
        });
        self.log.emit(json!({"ev": "obs", "what": "versions", "band": -1, "picked": -1,
            "subtree": [], "has_subtree": false, "match": [], "excl": [],
            "overwrite": false, "dest": "", "res": out.res, "panic": out.panic, "pmsg": out.panic_msg, "timeout": out.timeout,
            "mon_errors": out.mon_errors.len(), "mon_list": out.mon_errors,
            "tree": [], "entries": [], "quick": false, "versions": out.val.unwrap_or_default(), "changes": [],
            "dest_unchanged": true, "outside_unchanged": true, "ms": out.ms}));
    }

    pub fn do_validate(&mut self, st: &Value) {
        let quick = st.get("quick").and_then(|x| x.as_bool()).unwrap_or(false);
        let icpt = self.reader_icpt();
        let mon = TestMonitor::arc();
        let t = self.transport(icpt);
        let mon2 = mon.clone();
        let out = run_call(&self.rt_flavor, &mon, || async move {
            let archive = Archive::open(t).await.map_err(|e| err_name(&e))?;
            archive.validate(&ValidateOptions { skip_block_hashes: quick }, mon2).await.map_err(|e| err_name(&e))
        });
        self.log.emit(json!({"ev": "obs", "what": "validate", "band": -1, "picked": -1,
            "subtree": [], "has_subtree": false, "match": [], "excl": [],
            "overwrite": false, "dest": "", "res": out.res, "panic": out.panic, "pmsg": out.panic_msg, "timeout": out.timeout,
            "mon_errors": out.mon_errors.len(), "mon_list": out.mon_errors,
            "tree": [], "entries": [], "quick": quick, "versions": [], "changes": [],
            "dest_unchanged": true, "outside_unchanged": true, "ms": out.ms}));
    }

    fn do_diff(&mut self, st: &Value) {
        let band = st.get("band").and_then(|x| x.as_i64()).unwrap_or(-2);
        let include_unchanged = st.get("include_unchanged").and_then(|x| x.as_bool()).unwrap_or(false);
        let excl = str_list(st.get("excl"));
        let icpt = self.reader_icpt();
        let mon = TestMonitor::arc();
        let t = self.transport(icpt);
        let mon2 = mon.clone();
        let src = self.src.clone();
        let excl2 = excl.clone();
        let out = run_call(&self.rt_flavor, &mon, || async move {
            let archive = Archive::open(t).await.map_err(|e| err_name(&e))?;
            let st = archive.open_stored_tree(Self::policy(band)).await.map_err(|e| err_name(&e))?;
            let lt = SourceTree::open(&src).map_err(|e| err_name(&e))?;
            let options = DiffOptions { exclude: Exclude::from_strings(excl2.iter()).map_err(|e| err_name(&e))?, include_unchanged };
            let mut d = conserve::diff(&st, &lt, options, mon2).await.map_err(|e| err_name(&e))?;
            let mut v = Vec::new();
            while let Some(ec) = d.next().await {
                let j = serde_json::to_value(&ec).unwrap_or(json!({}));
                v.push(json!({"p": tree::comps_of(j["apath"].as_str().unwrap_or("/")), "ch": j["change"].as_str().unwrap_or("?")}));
            }
            Ok(v)
        });
        self.log.emit(json!({"ev": "obs", "what": "diff", "band": band, "picked": band,
            "subtree": [], "has_subtree": false, "match": [], "excl": excl,
            "overwrite": include_unchanged, "dest": "", "res": out.res, "panic": out.panic, "pmsg": out.panic_msg, "timeout": out.timeout,
            "mon_errors": out.mon_errors.len(), "mon_list": out.mon_errors,
            "tree": [], "entries": [], "quick": false, "versions": [], "changes": out.val.unwrap_or_default(),
            "dest_unchanged": true, "outside_unchanged": true, "ms": out.ms}));
    }

    /// The real comparator, validity test and ancestor test on a table of raw strings.
    /// Logs one event per block of rows: valid[i], panics[i] (From<&str> panicked), and for the
    /// rows of the block cmp[i][j] in {-1,0,1} and prefix[i][j] (self.is_prefix_of(other)); entries
    /// involving an invalid string are 9.
    fn do_apath_table(&mut self, st: &Value) {
        let raws: Vec<Vec<u8>> = serde_json::from_value(st["strings"].clone()).expect("strings");
        let strs: Vec<String> = raws.iter().map(|b| String::from_utf8(b.clone()).expect("utf8 strings only")).collect();
        let valid: Vec<bool> = strs.iter().map(|s| Apath::is_valid(s)).collect();
        let panics: Vec<bool> = strs
            .iter()
            .map(|s| catch_unwind(AssertUnwindSafe(|| {
                let _ = Apath::from(s.as_str());
            }))
            .is_err())
            .collect();
        let _ = take_panic();
        let parsed: Vec<Option<Apath>> = strs.iter().enumerate().map(|(i, s)| if valid[i] && !panics[i] { Some(Apath::from(s.as_str())) } else { None }).collect();
        let fromstr_ok: Vec<bool> = strs.iter().map(|s| s.parse::<Apath>().is_ok()).collect();
        let n = strs.len();
        let block = st.get("block").and_then(|x| x.as_u64()).unwrap_or(16) as usize;
        let mut i0 = 0;
        while i0 < n {
            let i1 = (i0 + block).min(n);
            let mut cmp = Vec::new();
            let mut pre = Vec::new();
            for i in i0..i1 {
                let mut crow = Vec::new();
                let mut prow = Vec::new();
                for j in 0..n {
                    match (&parsed[i], &parsed[j]) {
                        (Some(a), Some(b)) => {
                            crow.push(match a.cmp(b) {
                                std::cmp::Ordering::Less => -1,
                                std::cmp::Ordering::Equal => 0,
                                std::cmp::Ordering::Greater => 1,
                            });
                            prow.push(if a.is_prefix_of(b) { 1 } else { 0 });
                        }
                        _ => {
                            crow.push(9);
                            prow.push(9);
                        }
                    }
                }
                cmp.push(crow);
                pre.push(prow);
            }
            self.log.emit(json!({"ev": "apath", "strings": raws, "valid": valid, "panics": panics, "fromstr": fromstr_ok,
                                 "first": i0 + 1, "cmp": cmp, "prefix": pre}));
            i0 = i1;
        }
    }

    /// The order in which the real source walk emits the current source tree.
    fn do_walk(&mut self, st: &Value) {
        let excl = str_list(st.get("excl"));
        let src = self.src.clone();
        let src_paths: BTreeSet<Vec<Vec<u8>>> = self.src_tree.iter().map(|n| n.p.clone()).collect();
        let r = catch_unwind(AssertUnwindSafe(|| -> Result<Vec<Value>, String> {
            let lt = SourceTree::open(&src).map_err(|e| err_name(&e))?;
            let exclude = Exclude::from_strings(excl.iter()).map_err(|e| err_name(&e))?;
            let it = lt.iter_entries(Apath::root(), exclude, TestMonitor::arc()).map_err(|e| err_name(&e))?;
            Ok(it.map(|e| json!({"p": tree::comps_of(conserve::EntryTrait::apath(&e))})).collect())
        }));
        let (res, panic, entries) = match r {
            Ok(Ok(v)) => ("ok".to_string(), false, v),
            Ok(Err(e)) => (e, false, vec![]),
            Err(_) => ("panic".to_string(), true, vec![]),
        };
        // names that are not valid UTF-8 cannot be archive paths: the walk is expected to pass over
        // them (and over what lies below them)
        let undecodable: Vec<Vec<Vec<u8>>> = self.src_tree.iter().filter(|n| n.p.iter().any(|c| std::str::from_utf8(c).is_err())).map(|n| n.p.clone()).collect();
        self.log.emit(json!({"ev": "obs", "what": "walk", "band": -1, "picked": -1, "undecodable": undecodable,
            "subtree": [], "has_subtree": false, "match": match_facts(&excl, &src_paths), "excl": excl,
            "overwrite": false, "dest": "", "res": res, "panic": panic, "pmsg": take_panic(), "timeout": false,
            "mon_errors": 0, "mon_list": [],
            "tree": [], "entries": entries, "quick": false, "versions": [], "changes": [],
            "dest_unchanged": true, "outside_unchanged": true, "ms": 0}));
    }

    /// The zero-length file a write of the block with this content leaves when the process is killed
    /// after creating the file and before writing into it (logged as such a killed write).
    fn do_leftover_block(&mut self, st: &Value) {
        let content: Vec<u8> = serde_json::from_value(st["content"].clone()).unwrap_or_default();
        let hash = decode::blake2b_hex(&content);
        let rel = format!("d/{}/{}", &hash[..3], hash);
        let full = self.arch.join(&rel);
        fs::create_dir_all(full.parent().unwrap()).unwrap();
        if fs::symlink_metadata(&full).is_err() {
            fs::write(&full, b"").unwrap();
            self.log.emit_op(json!({
                "ev": "op", "seq": 0, "actor": "init", "k": -1, "verb": "write",
                "key": decode::key_of(&rel), "mode": "new", "inj": "crash_empty", "res": "Other", "pre": "absent",
                "dec": decode::payload("none"), "names": Vec::<String>::new(), "len": -1,
            }));
        }
        self.emit_fsck();
    }

    /// A band with more index hunks than fit one index sub-directory (doc/format.md: hunk n lives at
    /// i/{n / 10000 : 5 digits}/{n : 9 digits}), written by a real backup of `nfiles` empty files with
    /// one entry per hunk into an archive of its own. No per-verb events (there would be tens of
    /// thousands); the harness's own walk of the index directory is logged as one observation:
    /// where every hunk file sits, whether the numbers are consecutive from zero, what the tail says.
    fn do_bulk_probe(&mut self, st: &Value) {
        let nfiles = st.get("nfiles").and_then(|x| x.as_u64()).unwrap_or(10_050) as usize;
        let h = st.get("H").and_then(|x| x.as_u64()).unwrap_or(1) as usize;
        let src = self.fresh("bulk_src");
        let arch = self.fresh("bulk_arch");
        fs::create_dir_all(&src).unwrap();
        for i in 0..nfiles {
            fs::write(src.join(format!("f{i:06}")), b"").unwrap();
        }
        let mon = TestMonitor::arc();
        let mon2 = mon.clone();
        let (arch2, src2) = (arch.clone(), src.clone());
        let out = run_call(&self.rt_flavor, &mon, || async move {
            let archive = Archive::create(Transport::local(&arch2)).await.map_err(|e| err_name(&e))?;
            let options = BackupOptions { max_entries_per_hunk: h, ..BackupOptions::default() };
            conserve::backup(&archive, &src2, &options, mon2).await.map_err(|e| err_name(&e))
        });
        let mut found: Vec<(String, String)> = Vec::new();
        let idx = arch.join("b0000").join("i");
        if let Ok(rd) = fs::read_dir(&idx) {
            for sub in rd.flatten() {
                let sname = sub.file_name().to_string_lossy().to_string();
                if let Ok(rd2) = fs::read_dir(sub.path()) {
                    for f in rd2.flatten() {
                        found.push((sname.clone(), f.file_name().to_string_lossy().to_string()));
                    }
                }
            }
        }
        let mut nums: Vec<i64> = Vec::new();
        let mut misplaced: Vec<String> = Vec::new();
        for (sub, name) in &found {
            let ok = name.len() == 9 && name.bytes().all(|c| c.is_ascii_digit());
            let n = name.parse::<i64>().unwrap_or(-1);
            if ok {
                nums.push(n);
            }
            if !ok || *sub != format!("{:05}", n / 10000) {
                if misplaced.len() < 5 {
                    misplaced.push(format!("{sub}/{name}"));
                }
            }
        }
        nums.sort();
        let consecutive = nums.iter().enumerate().all(|(i, n)| *n == i as i64);
        let tail_count = fs::read(arch.join("b0000").join("BANDTAIL")).ok()
            .and_then(|b| serde_json::from_slice::<Value>(&b).ok())
            .and_then(|v| v["index_hunk_count"].as_i64()).unwrap_or(-1);
        // spot-decode the first and the last hunk where the documented layout puts them
        let last = nums.last().cloned().unwrap_or(-1);
        let decodes = [0i64, last].iter().all(|n| {
            *n >= 0 && fs::read(idx.join(format!("{:05}", n / 10000)).join(format!("{n:09}")))
                .map(|b| decode::decode_hunk(&b)["st"] == "ok").unwrap_or(false)
        });
        self.log.emit(json!({"ev": "obs", "what": "placement", "band": 0, "res": out.res, "panic": out.panic, "pmsg": out.panic_msg,
            "timeout": out.timeout, "mon_errors": out.mon_errors.len(), "mon_list": out.mon_errors,
            "nhunks": nums.len(), "expected": ((nfiles + 1) + h - 1) / h, "misplaced": misplaced, "consecutive": consecutive,
            "tail_count": tail_count.min(2_000_000_000), "decodes": decodes}));
        tree::remove_tree(&src);
        tree::remove_tree(&arch);
    }

    /// Direct contract probe of the transport: one write through the hooked transport.
    fn do_probe_write(&mut self, st: &Value) {
        let path = st["path"].as_str().unwrap().to_string();
        let content: Vec<u8> = serde_json::from_value(st["content"].clone()).unwrap_or_default();
        let mode = if st.get("mode").and_then(|x| x.as_str()) == Some("over") {
            conserve::transport::WriteMode::Overwrite
        } else {
            conserve::transport::WriteMode::CreateNew
        };
        let icpt = ActorIcpt::new("probe", &self.arch, self.log.clone(), Plan::default(), None);
        let mon = TestMonitor::arc();
        let t = self.transport(icpt);
        let out = run_call(&self.rt_flavor, &mon, || async move { t.write(&path, &content, mode).await.map_err(|e| err_name(&e)) });
        self.log.emit(json!({"ev": "note", "what": "probe_write", "res": out.res}));
        self.emit_fsck();
    }

    /// Damage one archive file. `path` is archive-relative; how: delete | trunc0 | half | garbage | bitflip
    fn do_damage(&mut self, st: &Value) {
        let path = st["path"].as_str().unwrap().to_string();
        let how = st["how"].as_str().unwrap().to_string();
        let full = self.arch.join(&path);
        let old = fs::read(&full).unwrap_or_default();
        match how.as_str() {
            "delete" => {
                let _ = fs::remove_file(&full);
            }
            "trunc0" => fs::write(&full, b"").unwrap(),
            "half" => fs::write(&full, &old[..old.len() / 2]).unwrap(),
            "garbage" => {
                let seed = st.get("seed").and_then(|x| x.as_u64()).unwrap_or(7);
                let mut x = seed | 1;
                let n = old.len().max(8);
                let mut g = Vec::with_capacity(n);
                for _ in 0..n {
                    x ^= x << 13;
                    x ^= x >> 7;
                    x ^= x << 17;
                    g.push((x & 0xff) as u8);
                }
                fs::write(&full, &g).unwrap();
            }
            "bitflip" => {
                let pos = st.get("pos").and_then(|x| x.as_u64()).unwrap_or(0) as usize;
                let mut n = old.clone();
                if !n.is_empty() {
                    let i = (pos / 8) % n.len();
                    n[i] ^= 1 << (pos % 8);
                }
                fs::write(&full, &n).unwrap();
            }
            other => panic!("damage how {other}"),
        }
        self.log.emit(json!({"ev": "damage", "key": decode::key_of(&path), "how": how, "path": path,
                             "pos": st.get("pos").and_then(|x| x.as_u64()).unwrap_or(0), "seed": st.get("seed").and_then(|x| x.as_u64()).unwrap_or(0)}));
        self.emit_fsck();
    }

    /// Every archive file x every kind of damage (optionally sampled), each followed by `then`.
    fn do_damage_sweep(&mut self, st: &Value) {
        let hows = {
            let h = str_list(st.get("hows"));
            if h.is_empty() { vec!["delete".to_string(), "trunc0".into(), "half".into(), "garbage".into()] } else { h }
        };
        let nflips = st.get("bitflips").and_then(|x| x.as_u64()).unwrap_or(0);
        let sample = st.get("sample").and_then(|x| x.as_u64()).unwrap_or(0) as usize;
        let seed = st.get("seed").and_then(|x| x.as_u64()).unwrap_or(1);
        let with_header = st.get("with_header").and_then(|x| x.as_bool()).unwrap_or(false);
        let with_tails = st.get("with_tails").and_then(|x| x.as_bool()).unwrap_or(true);
        let then: Vec<Value> = st.get("then").and_then(|x| x.as_array()).cloned().unwrap_or_default();
        // all files of the archive
        fn walk(dir: &Path, rel: &str, out: &mut Vec<(String, u64)>) {
            let mut names: Vec<_> = fs::read_dir(dir).map(|rd| rd.flatten().collect::<Vec<_>>()).unwrap_or_default();
            names.sort_by_key(|e| e.file_name());
            for e in names {
                let name = e.file_name().to_string_lossy().to_string();
                let r = if rel.is_empty() { name.clone() } else { format!("{rel}/{name}") };
                if e.file_type().map(|t| t.is_dir()).unwrap_or(false) {
                    walk(&e.path(), &r, out);
                } else {
                    out.push((r, e.metadata().map(|m| m.len()).unwrap_or(0)));
                }
            }
        }
        let mut files = Vec::new();
        walk(&self.arch, "", &mut files);
        let mut cands: Vec<Value> = Vec::new();
        let mut x = seed.wrapping_mul(0x9E3779B97F4A7C15) | 1;
        let mut rnd = move || {
            x ^= x << 13;
            x ^= x >> 7;
            x ^= x << 17;
            x
        };
        let only = st.get("only").and_then(|x| x.as_str()).unwrap_or("").to_string();
        for (f, len) in &files {
            if f == "CONSERVE" && !with_header {
                continue;
            }
            if !only.is_empty() && decode::key_of(f)["t"] != only.as_str() {
                continue;
            }
            if f.ends_with("BANDTAIL") && !with_tails {
                continue;
            }
            for h in &hows {
                if (h == "half" || h == "trunc0") && *len == 0 {
                    continue;
                }
                cands.push(json!({"op": "damage", "path": f, "how": h, "seed": rnd() % 1000}));
            }
            for _ in 0..nflips {
                if *len > 0 {
                    cands.push(json!({"op": "damage", "path": f, "how": "bitflip", "pos": rnd() % (len * 8)}));
                }
            }
        }
        if sample > 0 && cands.len() > sample {
            let mut picked = Vec::new();
            for _ in 0..sample {
                let i = (rnd() % cands.len() as u64) as usize;
                picked.push(cands.swap_remove(i));
            }
            cands = picked;
        }
        // "smart" bit flips: of ALL single-bit flips of an index hunk, head or tail, those after which
        // the file still decodes (for the independent reader) to something different -- an altered
        // address, length, path, kind, count ... -- are the ones a reader has to survive in other
        // ways than by rejecting the file; flips that make the file undecodable are all alike.
        let smart = st.get("smart_flips").and_then(|x| x.as_u64()).unwrap_or(0) as usize;
        if smart > 0 {
            for (f, len) in &files {
                let t = decode::key_of(f)["t"].as_str().unwrap_or("").to_string();
                if !(t == "Hunk" || t == "Head" || (t == "Tail" && with_tails)) || *len == 0 || *len > 4096 {
                    continue;
                }
                let old = fs::read(self.arch.join(f)).unwrap_or_default();
                let base = decode::decode_for(f, &old);
                let mut by_sig: BTreeMap<String, Vec<u64>> = BTreeMap::new();
                for pos in 0..(old.len() as u64 * 8) {
                    let mut n = old.clone();
                    n[(pos / 8) as usize] ^= 1 << (pos % 8);
                    let d = decode::decode_for(f, &n);
                    if d["st"] == "ok" && d != base {
                        by_sig.entry(decode::diff_signature(&base, &d)).or_default().push(pos);
                    }
                }
                // one of every kind of difference first, then more of the kinds that touch addresses
                let mut chosen: Vec<u64> = Vec::new();
                let hot = |k: &str| k.contains("a.") || k.contains("p@last") || k.contains("p@first") || k.contains("es.count") || k.contains("count");
                for pass in 0..2 {
                    for (k, v) in by_sig.iter() {
                        if hot(k) == (pass == 0) {
                            chosen.push(v[(rnd() % v.len() as u64) as usize]);
                        }
                    }
                }
                let addr: Vec<u64> = by_sig.iter().filter(|(k, _)| k.contains("a.")).flat_map(|(_, v)| v.iter().cloned()).collect();
                let mut extra = 0;
                while chosen.len() < smart && extra < 4 * smart && !addr.is_empty() {
                    let p = addr[(rnd() % addr.len() as u64) as usize];
                    if !chosen.contains(&p) {
                        chosen.push(p);
                    }
                    extra += 1;
                }
                chosen.truncate(smart);
                for p in chosen {
                    cands.push(json!({"op": "damage", "path": f, "how": "bitflip", "pos": p}));
                }
            }
        }
        self.do_save();
        self.log.emit(json!({"ev": "sweep", "mode": "damage", "nops": files.len(), "ninj": cands.len()}));
        for c in cands {
            self.do_damage(&c);
            self.run_steps(&then);
            self.do_reset();
        }
        self.do_unsave();
    }

    /// Enumerate injection positions of one operation: run it uninterrupted from a saved state,
    /// then for every (selected) op index k re-run it from that state with a crash or a fault at
    /// k, each followed by the `then` steps.
    fn do_sweep(&mut self, st: &Value) {
        let base = st["base"].clone();
        let mode = st.get("mode").and_then(|x| x.as_str()).unwrap_or("crash").to_string();
        let then: Vec<Value> = st.get("then").and_then(|x| x.as_array()).cloned().unwrap_or_default();
        let sample = st.get("sample").and_then(|x| x.as_u64()).unwrap_or(0) as usize;
        let seed = st.get("seed").and_then(|x| x.as_u64()).unwrap_or(1);
        let only_verbs = str_list(st.get("verbs"));
        let kinds = {
            let k = str_list(st.get("kinds"));
            if k.is_empty() { vec!["NotFound".to_string(), "AlreadyExists".into(), "PermissionDenied".into(), "Other".into()] } else { k }
        };
        let is_delete = base["op"] == "delete";
        let torn = st.get("torn").and_then(|x| x.as_u64()).unwrap_or(0) as usize;
        self.do_save();
        let verbs = if is_delete { self.do_delete(&base, Plan::default(), None) } else { self.do_backup(&base, Plan::default(), None) };
        self.run_steps(&then);
        self.do_reset();
        // candidate injections
        let mut cands: Vec<(usize, String)> = Vec::new();
        for (k, v) in verbs.iter().enumerate() {
            if !only_verbs.is_empty() && !only_verbs.contains(v) {
                continue;
            }
            match mode.as_str() {
                "crash" => {
                    cands.push((k, "crash".into()));
                    // a kill inside the (non-atomic) recursive removal of a directory
                    if v == "remove_dir_all" {
                        for j in 0..torn {
                            cands.push((k, format!("torn:{}", seed.wrapping_mul(131).wrapping_add(j as u64 * 7919 + k as u64))));
                        }
                    }
                }
                "crash_empty" => {
                    if v == "write" {
                        cands.push((k, "crash_empty".into()))
                    }
                }
                "crash_both" => {
                    cands.push((k, "crash".into()));
                    if v == "write" {
                        cands.push((k, "crash_empty".into()))
                    }
                }
                _ => {
                    for kind in &kinds {
                        cands.push((k, kind.clone()));
                    }
                }
            }
        }
        // also "crash after the last op" is just the completed run (done above)
        if sample > 0 && cands.len() > sample {
            let mut x = seed.wrapping_mul(0x9E3779B97F4A7C15) | 1;
            // stratified: the prologue (lock check, band creation, head, block listing) and the
            // epilogue (last hunk, tail / lock release) are always taken; the middle is sampled
            let last = verbs.len().saturating_sub(3);
            let mut picked: Vec<(usize, String)> = cands.iter().filter(|(k, w)| (*k <= 9 || *k >= last || w.starts_with("torn:")) && (w == "crash" || w == "crash_empty" || w == "Other" || w.starts_with("torn:"))).cloned().collect();
            let mut pool: Vec<(usize, String)> = cands.iter().filter(|c| !picked.contains(c)).cloned().collect();
            for _ in 0..sample {
                if pool.is_empty() {
                    break;
                }
                x ^= x << 13;
                x ^= x >> 7;
                x ^= x << 17;
                let i = (x % pool.len() as u64) as usize;
                picked.push(pool.swap_remove(i));
            }
            picked.sort();
            cands = picked;
        }
        self.log.emit(json!({"ev": "sweep", "mode": mode, "nops": verbs.len(), "ninj": cands.len()}));
        for (k, what) in cands {
            let mut plan = Plan::default();
            match what.as_str() {
                "crash" => plan.crash_at = Some(k),
                "crash_empty" => {
                    plan.crash_at = Some(k);
                    plan.crash_empty = true;
                }
                t if t.starts_with("torn:") => {
                    plan.crash_at = Some(k);
                    plan.crash_torn = t[5..].parse::<u64>().ok();
                }
                kind => {
                    plan.fail.insert(k, kind.to_string());
                }
            }
            if is_delete {
                self.do_delete(&base, plan, None);
            } else {
                self.do_backup(&base, plan, None);
            }
            self.run_steps(&then);
            self.do_reset();
        }
        self.do_unsave();
        if st.get("finally_run").and_then(|x| x.as_bool()).unwrap_or(false) {
            if is_delete {
                self.do_delete(&base, Plan::default(), None);
            } else {
                self.do_backup(&base, Plan::default(), None);
            }
        }
    }
}
