//! cvharness: runs verification scenarios against the real conserve library and records
//! ndjson event traces for validation against the TLA+ specification.

mod conc;
mod decode;
mod drive;
mod intercept;
mod layout;
mod tree;

use std::io::{BufRead, BufReader};
use std::path::PathBuf;
use std::sync::Arc;
use std::sync::atomic::Ordering;

use serde_json::{Value, json};

fn main() {
    let args: Vec<String> = std::env::args().collect();
    if args.len() < 2 {
        eprintln!("usage: cvharness run <scenarios.jsonl> <out.ndjson> <workdir> [start]");
        std::process::exit(2);
    }
    match args[1].as_str() {
        "run" => run(&args[2..]),
        "restore1" => drive::restore1(&args[2..]),
        "fsck" => {
            println!("{}", decode::fsck(&PathBuf::from(&args[2])));
        }
        other => {
            eprintln!("unknown command {other}");
            std::process::exit(2);
        }
    }
}

fn run(args: &[String]) {
    let scen_path = PathBuf::from(&args[0]);
    let out_path = PathBuf::from(&args[1]);
    let work = PathBuf::from(&args[2]);
    let start: usize = args.get(3).and_then(|s| s.parse().ok()).unwrap_or(0);
    drive::install_panic_hook();
    let log = Arc::new(intercept::Log::create(&out_path).expect("create trace file"));
    // watchdog for calls that hang in synchronous code
    {
        let log = log.clone();
        std::thread::spawn(move || {
            loop {
                std::thread::sleep(std::time::Duration::from_millis(500));
                let d = drive::WATCHDOG_DEADLINE.load(Ordering::SeqCst);
                if d != 0 {
                    let now = std::time::SystemTime::now().duration_since(std::time::UNIX_EPOCH).unwrap().as_secs();
                    if now > d {
                        log.emit(json!({"ev": "hang"}));
                        std::process::exit(3);
                    }
                }
            }
        });
    }
    let f = std::fs::File::open(&scen_path).expect("open scenarios");
    let mut runner = drive::Runner::new(&work, log.clone());
    for (i, line) in BufReader::new(f).lines().enumerate() {
        let line = line.unwrap();
        if i < start || line.trim().is_empty() {
            continue;
        }
        let sc: Value = serde_json::from_str(&line).expect("scenario json");
        runner.start_scenario(&sc);
        let steps = sc["steps"].as_array().cloned().unwrap_or_default();
        runner.run_steps(&steps);
        log.emit(json!({"ev": "end", "id": sc["id"], "index": i}));
        runner.finish_scenario();
    }
    if std::env::var("CV_KEEP").is_err() {
        tree::remove_tree(&work);
    }
}
