//! Archives written directly in the documented format by the harness's own encoder (no conserve
//! code involved), for the stitching / listing checks.
//!
//! Step: {"op":"layout","bands":[{"id":1,"head":true,"tail":true,"count":2,
//!                                 "hunks":[{"n":0,"es":[E,...]}, ...]}, ...],
//!        "blocks":[[bytes...], ...]}
//! where E is an entry in the harness's abstract form (p, k, mt, mode, u, g, a, t).

use std::fs;

use serde_json::{Value, json};

use crate::decode;
use crate::drive::Runner;
use crate::tree;

/// Abstract entry -> the JSON dict documented in doc/format.md.
fn entry_doc_json(e: &Value, full_hash: &dyn Fn(&str) -> String) -> Value {
    let p: Vec<Vec<u8>> = serde_json::from_value(e["p"].clone()).unwrap_or_default();
    let mut o = serde_json::Map::new();
    o.insert("apath".into(), json!(tree::apath_string(&p)));
    o.insert("kind".into(), e["k"].clone());
    o.insert("mtime".into(), e["mt"][0].clone());
    if e["mt"][1].as_i64().unwrap_or(0) != 0 {
        o.insert("mtime_nanos".into(), e["mt"][1].clone());
    }
    let mode = e["mode"].as_i64().unwrap_or(-1);
    o.insert("unix_mode".into(), if mode < 0 { Value::Null } else { json!(mode) });
    if let Some(u) = e["u"].as_str() {
        if !u.is_empty() {
            o.insert("user".into(), json!(u));
        }
    }
    if let Some(g) = e["g"].as_str() {
        if !g.is_empty() {
            o.insert("group".into(), json!(g));
        }
    }
    if let Some(a) = e["a"].as_array() {
        if !a.is_empty() {
            o.insert(
                "addrs".into(),
                Value::Array(
                    a.iter()
                        .map(|x| {
                            let mut m = serde_json::Map::new();
                            m.insert("hash".into(), json!(full_hash(x["h"].as_str().unwrap_or(""))));
                            if x["s"].as_i64().unwrap_or(0) != 0 {
                                m.insert("start".into(), x["s"].clone());
                            }
                            m.insert("len".into(), x["n"].clone());
                            Value::Object(m)
                        })
                        .collect(),
                ),
            );
        }
    }
    if e["k"] == "Symlink" {
        let t: Vec<u8> = serde_json::from_value(e["t"].clone()).unwrap_or_default();
        o.insert("target".into(), json!(String::from_utf8_lossy(&t)));
    }
    Value::Object(o)
}

pub fn do_layout(r: &mut Runner, st: &Value) {
    let root = r.arch.clone();
    tree::remove_tree(&root);
    fs::create_dir_all(root.join("d")).unwrap();
    fs::write(root.join("CONSERVE"), b"{\"conserve_archive_version\":\"0.6\"}\n").unwrap();
    // blocks: content -> full hash, addressable by their abbreviated name
    let mut full: std::collections::HashMap<String, String> = std::collections::HashMap::new();
    if let Some(blocks) = st.get("blocks").and_then(|x| x.as_array()) {
        for b in blocks {
            let content: Vec<u8> = serde_json::from_value(b.clone()).unwrap_or_default();
            let (hash, comp) = decode::encode_block(&content);
            let dir = root.join("d").join(&hash[..3]);
            fs::create_dir_all(&dir).unwrap();
            fs::write(dir.join(&hash), comp).unwrap();
            full.insert(decode::short(&hash), hash);
        }
    }
    let lookup = |h: &str| -> String { full.get(h).cloned().unwrap_or_else(|| format!("{:0<128}", h)) };
    for b in st["bands"].as_array().unwrap() {
        let id = b["id"].as_u64().unwrap() as u32;
        let bdir = root.join(decode::band_dirname(id));
        fs::create_dir_all(bdir.join("i")).unwrap();
        if b["head"].as_bool().unwrap_or(true) {
            fs::write(bdir.join("BANDHEAD"), b"{\"start_time\":1600000000,\"band_format_version\":\"0.6.3\"}\n").unwrap();
        }
        let mut nh = 0;
        for h in b["hunks"].as_array().unwrap() {
            let n = h["n"].as_u64().unwrap() as u32;
            let es: Vec<Value> = h["es"].as_array().unwrap().iter().map(|e| entry_doc_json(e, &lookup)).collect();
            let rel = decode::hunk_relpath(n);
            let full_path = bdir.join(&rel);
            fs::create_dir_all(full_path.parent().unwrap()).unwrap();
            fs::write(full_path, decode::encode_hunk(&es)).unwrap();
            nh += 1;
        }
        if b["tail"].as_bool().unwrap_or(false) {
            let count = b.get("count").and_then(|x| x.as_i64()).unwrap_or(nh);
            if b.get("legacy_tail").and_then(|x| x.as_bool()).unwrap_or(false) {
                // releases before 0.6.4 wrote no hunk count into the tail
                fs::write(bdir.join("BANDTAIL"), b"{\"end_time\":1600000100}\n").unwrap();
            } else {
                fs::write(bdir.join("BANDTAIL"), format!("{{\"end_time\":1600000100,\"index_hunk_count\":{count}}}\n")).unwrap();
            }
        }
    }
    r.log.emit(json!({"ev": "layout"}));
    r.emit_fsck();
}
