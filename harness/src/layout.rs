//! Archives written directly in the documented format by the harness (filled in later).
use serde_json::Value;

use crate::drive::Runner;

pub fn do_layout(_r: &mut Runner, _st: &Value) {
    unimplemented!("layout step")
}
