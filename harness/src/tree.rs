//! Real file trees <-> their abstract projection.
//!
//! A tree is a list of nodes; a node has a path (components as byte strings), a kind, content
//! bytes, a symlink target, an mtime (floor seconds, nanoseconds), mode bits and owner/group
//! names. This is the `tree` value of the specification (spec/Reader.tla).

use std::collections::HashMap;
use std::ffi::OsStr;
use std::fs;
use std::io;
use std::os::unix::ffi::OsStrExt;
use std::os::unix::fs::{MetadataExt, PermissionsExt};
use std::path::{Path, PathBuf};
use std::sync::Mutex;
use std::sync::atomic::{AtomicBool, Ordering};

use filetime::FileTime;
use serde::{Deserialize, Serialize};
use serde_json::{Value, json};

/// "Big" scenarios (contents of kilobytes to hundreds of kilobytes, block sizes as in production):
/// in every event a content longer than 64 bytes is replaced by its length and BLAKE2b digest (68
/// bytes), the same way for source trees, restored trees and decoded blocks, so that equality of
/// contents is preserved and the specification never sees the bulk.
pub static BIG: AtomicBool = AtomicBool::new(false);

/// Wall-clock second at which the current scenario started. A node whose mtime seconds are
/// NOW_MARK + k gets the mtime (that second + k): a time slightly ahead of, or just behind, the
/// clock -- the same absolute time in every replay of the scenario.
pub static NOW_BASE: std::sync::atomic::AtomicI64 = std::sync::atomic::AtomicI64::new(0);
pub const NOW_MARK: i64 = 9_000_000_000;

fn real_mtime(mt: (i64, u32)) -> (i64, u32) {
    if mt.0 >= NOW_MARK - 1_000_000 && mt.0 <= NOW_MARK + 1_000_000 {
        (NOW_BASE.load(Ordering::SeqCst) + (mt.0 - NOW_MARK), mt.1)
    } else {
        mt
    }
}

pub fn abstract_content(c: &[u8]) -> Vec<u8> {
    if BIG.load(Ordering::SeqCst) && c.len() > 64 {
        let mut v = (c.len() as u32).to_le_bytes().to_vec();
        v.extend_from_slice(blake2_rfc::blake2b::blake2b(64, &[], c).as_bytes());
        v
    } else {
        c.to_vec()
    }
}

/// Content given as pieces: ("z", n, _) n zero bytes; ("b", n, x) n bytes of value x; ("r", n, seed)
/// n pseudo-random bytes.
pub fn expand_pieces(cg: &[(String, u64, u64)]) -> Vec<u8> {
    let mut out = Vec::new();
    for (kind, n, x) in cg {
        match kind.as_str() {
            "z" => out.extend(std::iter::repeat(0u8).take(*n as usize)),
            "b" => out.extend(std::iter::repeat(*x as u8).take(*n as usize)),
            _ => {
                let mut s = x.wrapping_mul(0x9E3779B97F4A7C15) | 1;
                for _ in 0..*n {
                    s ^= s << 13;
                    s ^= s >> 7;
                    s ^= s << 17;
                    out.push((s >> 24) as u8);
                }
            }
        }
    }
    out
}

#[derive(Clone, Debug, Serialize, Deserialize, PartialEq, Eq)]
pub struct Node {
    /// Path components, each a byte string. Root is empty.
    pub p: Vec<Vec<u8>>,
    /// "File" | "Dir" | "Symlink"
    pub k: String,
    /// Content, for files.
    #[serde(default)]
    pub c: Vec<u8>,
    /// Content given as pieces instead (see `expand_pieces`); only in scenario input.
    #[serde(default, skip_serializing)]
    pub cg: Vec<(String, u64, u64)>,
    /// Target, for symlinks.
    #[serde(default)]
    pub t: Vec<u8>,
    /// mtime: (floor seconds, nanoseconds 0..1e9)
    #[serde(default = "default_mt")]
    pub mt: (i64, u32),
    #[serde(default = "default_mode")]
    pub mode: u32,
    #[serde(default)]
    pub u: String,
    #[serde(default)]
    pub g: String,
}

fn default_mt() -> (i64, u32) {
    (1_600_000_000, 0)
}
fn default_mode() -> u32 {
    0o644
}

impl Node {
    pub fn to_json(&self) -> Value {
        json!({"p": self.p, "k": self.k, "c": abstract_content(&self.c), "t": self.t, "mt": crate::decode::mt_json(self.mt.0, self.mt.1),
               "mode": self.mode, "u": self.u, "g": self.g})
    }
    pub fn rel_path(&self) -> PathBuf {
        let mut pb = PathBuf::new();
        for c in &self.p {
            pb.push(OsStr::from_bytes(c));
        }
        pb
    }
}

pub fn tree_json(t: &[Node]) -> Value {
    Value::Array(t.iter().map(|n| n.to_json()).collect())
}

/// uid/gid <-> names, read directly from /etc/passwd and /etc/group (independent of conserve's
/// `uzers` cache).
pub struct Names {
    pub uid_name: HashMap<u32, String>,
    pub gid_name: HashMap<u32, String>,
    pub name_uid: HashMap<String, u32>,
    pub name_gid: HashMap<String, u32>,
}

static NAMES: Mutex<Option<std::sync::Arc<Names>>> = Mutex::new(None);

pub fn names() -> std::sync::Arc<Names> {
    let mut g = NAMES.lock().unwrap();
    if let Some(n) = g.as_ref() {
        return n.clone();
    }
    let mut n = Names {
        uid_name: HashMap::new(),
        gid_name: HashMap::new(),
        name_uid: HashMap::new(),
        name_gid: HashMap::new(),
    };
    if let Ok(s) = fs::read_to_string("/etc/passwd") {
        for line in s.lines() {
            let f: Vec<&str> = line.split(':').collect();
            if f.len() >= 3 {
                if let Ok(uid) = f[2].parse::<u32>() {
                    n.uid_name.entry(uid).or_insert(f[0].to_string());
                    n.name_uid.entry(f[0].to_string()).or_insert(uid);
                }
            }
        }
    }
    if let Ok(s) = fs::read_to_string("/etc/group") {
        for line in s.lines() {
            let f: Vec<&str> = line.split(':').collect();
            if f.len() >= 3 {
                if let Ok(gid) = f[2].parse::<u32>() {
                    n.gid_name.entry(gid).or_insert(f[0].to_string());
                    n.name_gid.entry(f[0].to_string()).or_insert(gid);
                }
            }
        }
    }
    let a = std::sync::Arc::new(n);
    *g = Some(a.clone());
    a
}

fn chown_by_name(path: &Path, u: &str, g: &str) -> io::Result<()> {
    let n = names();
    // "#1234" = a numeric id (one without a name in the passwd / group files, say)
    let uid = if u.is_empty() { None } else if let Some(x) = u.strip_prefix('#') { x.parse().ok() } else { n.name_uid.get(u).copied() };
    let gid = if g.is_empty() { None } else if let Some(x) = g.strip_prefix('#') { x.parse().ok() } else { n.name_gid.get(g).copied() };
    if uid.is_none() && gid.is_none() {
        return Ok(());
    }
    std::os::unix::fs::lchown(path, uid, gid)
}

/// Remove everything below `root` (and `root` itself), tolerating unreadable modes.
pub fn remove_tree(root: &Path) {
    if let Ok(md) = fs::symlink_metadata(root) {
        if md.is_dir() {
            let _ = fs::set_permissions(root, fs::Permissions::from_mode(0o755));
            if let Ok(rd) = fs::read_dir(root) {
                for e in rd.flatten() {
                    remove_tree(&e.path());
                }
            }
            let _ = fs::remove_dir(root);
        } else {
            let _ = fs::remove_file(root);
        }
    }
}

/// Create the tree `nodes` at `root` (which is removed first).
pub fn materialize(root: &Path, nodes: &[Node]) -> io::Result<()> {
    remove_tree(root);
    fs::create_dir_all(root)?;
    let mut order: Vec<&Node> = nodes.iter().collect();
    order.sort_by_key(|n| n.p.len());
    for n in &order {
        if n.p.is_empty() {
            continue;
        }
        let path = root.join(n.rel_path());
        match n.k.as_str() {
            "Dir" => fs::create_dir(&path)?,
            "File" => {
                if n.cg.is_empty() {
                    fs::write(&path, &n.c)?
                } else {
                    fs::write(&path, expand_pieces(&n.cg))?
                }
            }
            "Symlink" => std::os::unix::fs::symlink(OsStr::from_bytes(&n.t), &path)?,
            // something a backup cannot store and passes over: a named pipe
            "Fifo" => {
                let ok = std::process::Command::new("mkfifo").arg(&path).status().map(|s| s.success()).unwrap_or(false);
                if !ok {
                    return Err(io::Error::new(io::ErrorKind::Other, "mkfifo failed"));
                }
            }
            other => {
                return Err(io::Error::new(io::ErrorKind::InvalidInput, format!("kind {other}")));
            }
        }
    }
    // metadata: deepest first, so that setting a child's times does not disturb a parent
    // (it does not anyway) and directories get their final mode after their children exist.
    order.sort_by_key(|n| std::cmp::Reverse(n.p.len()));
    for n in &order {
        let path = if n.p.is_empty() { root.to_path_buf() } else { root.join(n.rel_path()) };
        chown_by_name(&path, &n.u, &n.g)?;
        let mt = real_mtime(n.mt);
        let ft = FileTime::from_unix_time(mt.0, mt.1);
        match n.k.as_str() {
            "Symlink" => filetime::set_symlink_file_times(&path, ft, ft)?,
            _ => {
                fs::set_permissions(&path, fs::Permissions::from_mode(n.mode))?;
                filetime::set_file_times(&path, ft, ft)?;
            }
        }
    }
    Ok(())
}

fn project_into(root: &Path, rel: &mut Vec<Vec<u8>>, path: &Path, out: &mut Vec<Node>) -> io::Result<()> {
    let md = fs::symlink_metadata(path)?;
    let n = names();
    let ft = md.file_type();
    let (k, c, t) = if ft.is_dir() {
        ("Dir", vec![], vec![])
    } else if ft.is_symlink() {
        ("Symlink", vec![], fs::read_link(path)?.as_os_str().as_bytes().to_vec())
    } else if ft.is_file() {
        ("File", fs::read(path)?, vec![])
    } else {
        ("Other", vec![], vec![])
    };
    out.push(Node {
        p: rel.clone(),
        k: k.to_string(),
        c,
        cg: vec![],
        t,
        mt: (md.mtime(), md.mtime_nsec() as u32),
        mode: md.mode() & 0o7777,
        u: n.uid_name.get(&md.uid()).cloned().unwrap_or_default(),
        g: n.gid_name.get(&md.gid()).cloned().unwrap_or_default(),
    });
    if ft.is_dir() {
        let mut names: Vec<_> = fs::read_dir(path)?.filter_map(|e| e.ok()).map(|e| e.file_name()).collect();
        names.sort();
        for name in names {
            rel.push(name.as_bytes().to_vec());
            project_into(root, rel, &path.join(&name), out)?;
            rel.pop();
        }
    }
    Ok(())
}

/// Independent projection of a real tree (lstat, readlink, bytes). Root node included.
pub fn project(root: &Path) -> io::Result<Vec<Node>> {
    let mut out = Vec::new();
    if fs::symlink_metadata(root).is_err() {
        return Ok(out);
    }
    // make sure we can read everything even with odd modes: we run as root in this sandbox
    project_into(root, &mut Vec::new(), root, &mut out)?;
    Ok(out)
}

/// The projection of a SOURCE tree: what a backup is to store. Special files (pipes, sockets,
/// devices) are not part of it; conserve passes over them.
pub fn project_source(root: &Path) -> io::Result<Vec<Node>> {
    Ok(project(root)?.into_iter().filter(|n| n.k != "Other").collect())
}

/// A cheap digest of a projected tree, for "did anything outside change" comparisons.
pub fn digest(nodes: &[Node]) -> String {
    let s = serde_json::to_vec(&tree_json(nodes)).unwrap();
    let h = blake2_rfc::blake2b::blake2b(16, &[], &s);
    hex::encode(h.as_bytes())
}

/// Path string "/a/b" of a node path.
pub fn apath_string(p: &[Vec<u8>]) -> String {
    if p.is_empty() {
        return "/".to_string();
    }
    let mut s = String::new();
    for c in p {
        s.push('/');
        s.push_str(&String::from_utf8_lossy(c));
    }
    s
}

/// Components of an apath string (no validation beyond splitting).
pub fn comps_of(s: &str) -> Vec<Vec<u8>> {
    let b = s.as_bytes();
    if b == b"/" || b.is_empty() {
        return vec![];
    }
    let body = if b[0] == b'/' { &b[1..] } else { b };
    body.split(|x| *x == b'/').map(|c| c.to_vec()).collect()
}
