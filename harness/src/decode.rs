//! Independent reader (and writer) of the documented conserve 0.6 archive format.
//!
//! Nothing here calls into conserve: it uses the `snap`, `serde_json` and `blake2-rfc` crates
//! directly, following doc/format.md. The result is the `fs` value of the specification
//! (spec/Storage.tla) as JSON.

use std::fs;
use std::path::Path;

use serde::Deserialize;
use serde_json::{Value, json};

use crate::tree::comps_of;

#[derive(Deserialize, Debug)]
struct RawAddr {
    hash: String,
    #[serde(default)]
    start: u64,
    len: u64,
}

#[derive(Deserialize, Debug)]
struct RawEntry {
    apath: String,
    kind: String,
    #[serde(default)]
    mtime: i64,
    #[serde(default)]
    mtime_nanos: u32,
    #[serde(default)]
    unix_mode: Option<u32>,
    #[serde(default)]
    user: Option<String>,
    #[serde(default)]
    group: Option<String>,
    #[serde(default)]
    addrs: Vec<RawAddr>,
    #[serde(default)]
    target: Option<String>,
}

/// Own statement of apath validity (doc/format.md): starts with '/', no empty, "." or ".."
/// component, no NUL.
pub fn apath_valid(s: &str) -> bool {
    let b = s.as_bytes();
    if b.is_empty() || b[0] != b'/' {
        return false;
    }
    if b.len() == 1 {
        return true;
    }
    for part in b[1..].split(|x| *x == b'/') {
        if part.is_empty() || part == b"." || part == b".." || part.contains(&0) {
            return false;
        }
    }
    true
}

/// Block names are 128 hex digits; the specification only needs them as injective ids, so
/// they are abbreviated (collisions among the few dozen blocks of a scenario are not credible).
pub fn short(h: &str) -> String {
    // a prefix for readability plus a digest of the whole name, so that names differing anywhere
    // get different ids
    // (hexadecimal digits are case-insensitive: "AB" and "ab" name the same block)
    let h = h.to_ascii_lowercase();
    let d = blake2_rfc::blake2b::blake2b(4, &[], h.as_bytes());
    format!("{}-{}", h.chars().take(8).collect::<String>(), hex::encode(d.as_bytes()))
}

/// TLC integers are 32-bit: larger values are clamped, the same way wherever they are logged.
pub fn clamp_i32(x: i64) -> i64 {
    x.clamp(-2_147_000_000, 2_147_000_000)
}

/// A time for TLC (32-bit integers): [seconds mod 10^9, nanoseconds, seconds div 10^9] -- exact for
/// every i64 second the way clamping was not; the specification only compares times for equality.
pub fn mt_json(sec: i64, nanos: u32) -> Value {
    json!([sec.rem_euclid(1_000_000_000), nanos.min(2_000_000_000), clamp_i32(sec.div_euclid(1_000_000_000))])
}

fn entry_json(e: &RawEntry) -> Value {
    let pv = apath_valid(&e.apath);
    json!({
        "p": comps_of(&e.apath),
        "pv": pv,
        "k": e.kind,
        "mt": mt_json(e.mtime, e.mtime_nanos),
        "mode": e.unix_mode.map(|m| m as i64).unwrap_or(-1),
        "u": e.user.clone().unwrap_or_default(),
        "g": e.group.clone().unwrap_or_default(),
        "a": e.addrs.iter().map(|a| json!({"h": short(&a.hash), "s": clamp_i32(a.start as i64), "n": clamp_i32(a.len as i64)})).collect::<Vec<_>>(),
        "t": e.target.as_ref().map(|t| t.as_bytes().to_vec()).unwrap_or_default(),
        "ht": e.target.is_some(),
    })
}

/// Decoded payload of a file with a given role. Always has the same fields so that the TLA+
/// side sees records of one shape: st, es, c, nok, sok, count.
pub fn payload(st: &str) -> Value {
    json!({"st": st, "es": [], "c": [], "nok": false, "sok": false, "count": -1})
}

pub fn decode_hunk(bytes: &[u8]) -> Value {
    if bytes.is_empty() {
        return payload("empty");
    }
    let raw = match snap::raw::Decoder::new().decompress_vec(bytes) {
        Ok(r) => r,
        Err(_) => return payload("garbage"),
    };
    match serde_json::from_slice::<Vec<RawEntry>>(&raw) {
        // the documented value spaces: a kind is one of three words (plus "Unknown", which readers have
        // always had to tolerate), a block hash is 128 hex digits, a path is a valid apath, the
        // nanoseconds are below a second and the seconds a time that exists
        Ok(es)
            if es.iter().all(|e| {
                matches!(e.kind.as_str(), "File" | "Dir" | "Symlink" | "Unknown")
                    && e.addrs.iter().all(|a| a.hash.len() == 128 && a.hash.bytes().all(|c| c.is_ascii_hexdigit()))
                    && apath_valid(&e.apath)
                    && e.mtime_nanos < 1_000_000_000
                    && (-377_705_023_201..=253_402_207_200).contains(&e.mtime)
            }) =>
        {
            let mut p = payload("ok");
            p["es"] = Value::Array(es.iter().map(entry_json).collect());
            p
        }
        _ => payload("garbage"),
    }
}

pub fn blake2b_hex(content: &[u8]) -> String {
    hex::encode(blake2_rfc::blake2b::blake2b(64, &[], content).as_bytes())
}

/// `name` is the file name of the block, `subdir` the directory it sits in.
pub fn decode_block(bytes: &[u8], name: &str, subdir: &str) -> Value {
    if bytes.is_empty() {
        return payload("empty");
    }
    match snap::raw::Decoder::new().decompress_vec(bytes) {
        Ok(raw) => {
            let mut p = payload("ok");
            p["nok"] = json!(blake2b_hex(&raw) == name);
            p["sok"] = json!(name.len() >= 3 && &name[..3] == subdir);
            p["c"] = json!(crate::tree::abstract_content(&raw));
            p
        }
        Err(_) => payload("garbage"),
    }
}

pub fn decode_head(bytes: &[u8]) -> Value {
    if bytes.is_empty() {
        return payload("empty");
    }
    match serde_json::from_slice::<Value>(bytes) {
        Ok(v) if v.is_object() && v.get("start_time").map(|x| x.is_i64()).unwrap_or(false) => payload("ok"),
        _ => payload("garbage"),
    }
}

pub fn decode_tail(bytes: &[u8]) -> Value {
    if bytes.is_empty() {
        return payload("empty");
    }
    match serde_json::from_slice::<Value>(bytes) {
        Ok(v) if v.is_object() && v.get("end_time").map(|x| x.is_i64()).unwrap_or(false) => {
            let mut p = payload("ok");
            p["count"] = json!(v.get("index_hunk_count").and_then(|x| x.as_i64()).unwrap_or(-1));
            p
        }
        _ => payload("garbage"),
    }
}

pub fn decode_header(bytes: &[u8]) -> Value {
    if bytes.is_empty() {
        return payload("empty");
    }
    match serde_json::from_slice::<Value>(bytes) {
        Ok(v) if v.get("conserve_archive_version").and_then(|x| x.as_str()) == Some("0.6") => payload("ok"),
        _ => payload("garbage"),
    }
}

/// The role of an archive-relative path, as a key record: t, b, n, h, s.
pub fn key_of(path: &str) -> Value {
    let path = path.trim_matches('/');
    let k = |t: &str, b: i64, n: i64, h: &str, s: &str| json!({"t": t, "b": b, "n": n, "h": h, "s": s});
    if path.is_empty() || path == "." {
        return k("Root", -1, -1, "", "");
    }
    let parts: Vec<&str> = path.split('/').collect();
    let band = |s: &str| -> Option<i64> {
        if s.len() >= 2 && s.starts_with('b') && s[1..].bytes().all(|c| c.is_ascii_digit()) {
            s[1..].parse::<i64>().ok()
        } else {
            None
        }
    };
    match parts.as_slice() {
        ["CONSERVE"] => k("Header", -1, -1, "", ""),
        ["GC_LOCK"] => k("Lock", -1, -1, "", ""),
        ["d"] => k("BlockRoot", -1, -1, "", ""),
        ["d", sub] => k("BlockSub", -1, -1, sub, ""),
        ["d", _sub, name] => k("Block", -1, -1, &short(name), ""),
        [b] if band(b).is_some() => k("BandDir", band(b).unwrap(), -1, "", ""),
        [b, "BANDHEAD"] if band(b).is_some() => k("Head", band(b).unwrap(), -1, "", ""),
        [b, "BANDTAIL"] if band(b).is_some() => k("Tail", band(b).unwrap(), -1, "", ""),
        [b, "i"] if band(b).is_some() => k("IndexDir", band(b).unwrap(), -1, "", ""),
        [b, "i", sub] if band(b).is_some() && sub.parse::<i64>().is_ok() => {
            k("HunkDir", band(b).unwrap(), sub.parse().unwrap(), "", "")
        }
        // doc/format.md: hunk n is i/{n / 10000 : 5 digits}/{n : 9 digits}; a hunk file anywhere else is
        // not where a reader of the documented format looks for it
        [b, "i", sub, name]
            if band(b).is_some()
                && name.len() == 9
                && name.bytes().all(|c| c.is_ascii_digit())
                && *sub == format!("{:05}", name.parse::<i64>().unwrap() / 10000) =>
        {
            k("Hunk", band(b).unwrap(), name.parse().unwrap(), "", "")
        }
        _ => k("Other", -1, -1, "", path),
    }
}

/// Screening verdict for the schedule search (NOT a property verdict: suspicious schedules are run
/// again with full logging and judged by TLC): does some version with a readable head and a tail
/// name a block that is missing, undecodable or too short, or lack hunks its tail counts?
pub fn suspicious(fsj: &Value) -> bool {
    let mut blocks: std::collections::HashMap<String, (bool, i64)> = std::collections::HashMap::new();
    for b in fsj["blocks"].as_array().cloned().unwrap_or_default() {
        blocks.insert(b["h"].as_str().unwrap_or("").to_string(), (b["st"] == "ok", b["c"].as_array().map(|c| c.len() as i64).unwrap_or(0)));
    }
    if fsj["lock"].as_bool() == Some(true) {
        return true;
    }
    for band in fsj["bands"].as_array().cloned().unwrap_or_default() {
        if band["head"] != "ok" || band["tail"] != "ok" {
            continue;
        }
        let hunks = band["hunks"].as_array().cloned().unwrap_or_default();
        // (a tail without a count is an old release's: nothing to compare)
        let tc = band["tc"].as_i64().unwrap_or(-1);
        if tc != -1 && tc != hunks.len() as i64 {
            return true;
        }
        for h in hunks {
            if h["st"] != "ok" {
                return true;
            }
            for e in h["es"].as_array().cloned().unwrap_or_default() {
                for a in e["a"].as_array().cloned().unwrap_or_default() {
                    match blocks.get(a["h"].as_str().unwrap_or("")) {
                        Some((true, len)) if a["s"].as_i64().unwrap_or(0) + a["n"].as_i64().unwrap_or(0) <= *len => {}
                        _ => return true,
                    }
                }
            }
        }
    }
    false
}

/// Which fields differ between two decoded payloads (of a hunk: per entry field, addresses as
/// "a.h" / "a.s" / "a.n" / "a.count"; else the payload field names). Used to pick bit flips of
/// different kinds.
pub fn diff_signature(a: &Value, b: &Value) -> String {
    let mut sig: Vec<String> = Vec::new();
    let (ea, eb) = (a["es"].as_array().cloned().unwrap_or_default(), b["es"].as_array().cloned().unwrap_or_default());
    if ea.len() != eb.len() {
        sig.push("es.count".into());
    }
    let n = ea.len().min(eb.len());
    for (i, (x, y)) in ea.iter().zip(eb.iter()).enumerate() {
        for k in ["p", "pv", "k", "mt", "mode", "u", "g", "t", "ht"] {
            if x[k] != y[k] {
                if k == "p" {
                    // where in the hunk, and in which direction: logic that keys off the first or the last
                    // path of a hunk is what an altered path can mislead
                    let pos = if i + 1 == n { "last" } else if i == 0 { "first" } else { "mid" };
                    let dir = if y[k].to_string() > x[k].to_string() { "up" } else { "down" };
                    sig.push(format!("p@{pos}:{dir}"));
                } else {
                    sig.push(k.to_string());
                }
            }
        }
        let (ax, ay) = (x["a"].as_array().cloned().unwrap_or_default(), y["a"].as_array().cloned().unwrap_or_default());
        if ax.len() != ay.len() {
            sig.push("a.count".into());
        }
        for (p, q) in ax.iter().zip(ay.iter()) {
            for k in ["h", "s", "n"] {
                if p[k] != q[k] {
                    sig.push(format!("a.{k}"));
                }
            }
        }
    }
    for k in ["count", "c", "nok", "sok"] {
        if a[k] != b[k] {
            sig.push(k.to_string());
        }
    }
    sig.sort();
    sig.dedup();
    sig.join("+")
}

/// Relative path of the subdirectory name for a block file: the parent directory name.
pub fn block_subdir_of(path: &str) -> String {
    let parts: Vec<&str> = path.trim_matches('/').split('/').collect();
    if parts.len() == 3 { parts[1].to_string() } else { String::new() }
}

/// Decode the payload of a write to `path`.
pub fn decode_for(path: &str, bytes: &[u8]) -> Value {
    let key = key_of(path);
    match key["t"].as_str().unwrap() {
        "Hunk" => decode_hunk(bytes),
        "Block" => {
            let name = path.trim_matches('/').rsplit('/').next().unwrap_or("");
            decode_block(bytes, name, &block_subdir_of(path))
        }
        "Head" => decode_head(bytes),
        "Tail" => decode_tail(bytes),
        "Header" => decode_header(bytes),
        _ => payload(if bytes.is_empty() { "empty" } else { "ok" }),
    }
}

fn list_sorted(dir: &Path) -> Vec<(String, bool)> {
    let mut v = Vec::new();
    if let Ok(rd) = fs::read_dir(dir) {
        for e in rd.flatten() {
            let name = e.file_name().to_string_lossy().to_string();
            let is_dir = e.file_type().map(|t| t.is_dir()).unwrap_or(false);
            v.push((name, is_dir));
        }
    }
    v.sort();
    v
}

/// Full independent projection of an archive directory: the `fs` of the specification.
pub fn fsck(root: &Path) -> Value {
    let mut hdr = "absent".to_string();
    let mut lock = false;
    let mut bands = Vec::new();
    let mut blocks = Vec::new();
    let mut extra: Vec<String> = Vec::new();
    for (name, is_dir) in list_sorted(root) {
        let p = root.join(&name);
        if !is_dir {
            match name.as_str() {
                "CONSERVE" => hdr = decode_header(&fs::read(&p).unwrap_or_default())["st"].as_str().unwrap().to_string(),
                "GC_LOCK" => lock = true,
                _ => extra.push(name.clone()),
            }
            continue;
        }
        if name == "d" {
            for (sub, sub_is_dir) in list_sorted(&p) {
                if !sub_is_dir {
                    extra.push(format!("d/{sub}"));
                    continue;
                }
                for (bn, bn_is_dir) in list_sorted(&p.join(&sub)) {
                    if bn_is_dir {
                        extra.push(format!("d/{sub}/{bn}"));
                        continue;
                    }
                    let bytes = fs::read(p.join(&sub).join(&bn)).unwrap_or_default();
                    let d = decode_block(&bytes, &bn, &sub);
                    blocks.push(json!({"h": short(&bn), "st": d["st"], "c": d["c"], "nok": d["nok"], "sok": d["sok"]}));
                }
            }
            continue;
        }
        let key = key_of(&name);
        if key["t"] != "BandDir" {
            extra.push(name.clone());
            continue;
        }
        let id = key["b"].as_i64().unwrap();
        let mut head = "absent".to_string();
        let mut tail = "absent".to_string();
        let mut tc: i64 = -1;
        let mut hunks = Vec::new();
        for (bn, bn_is_dir) in list_sorted(&p) {
            let bp = p.join(&bn);
            match (bn.as_str(), bn_is_dir) {
                ("BANDHEAD", false) => head = decode_head(&fs::read(&bp).unwrap_or_default())["st"].as_str().unwrap().to_string(),
                ("BANDTAIL", false) => {
                    let d = decode_tail(&fs::read(&bp).unwrap_or_default());
                    tail = d["st"].as_str().unwrap().to_string();
                    tc = d["count"].as_i64().unwrap();
                }
                ("i", true) => {
                    for (sub, sub_is_dir) in list_sorted(&bp) {
                        if !sub_is_dir {
                            extra.push(format!("{name}/i/{sub}"));
                            continue;
                        }
                        for (hn, hn_is_dir) in list_sorted(&bp.join(&sub)) {
                            let rel = format!("{name}/i/{sub}/{hn}");
                            let hk = key_of(&rel);
                            if hn_is_dir || hk["t"] != "Hunk" {
                                extra.push(rel);
                                continue;
                            }
                            let bytes = fs::read(bp.join(&sub).join(&hn)).unwrap_or_default();
                            let d = decode_hunk(&bytes);
                            hunks.push(json!({"n": hk["n"], "st": d["st"], "es": d["es"]}));
                        }
                    }
                }
                _ => extra.push(format!("{name}/{bn}")),
            }
        }
        bands.push(json!({"id": id, "head": head, "tail": tail, "tc": tc, "hunks": hunks}));
    }
    json!({"hdr": hdr, "lock": lock, "bands": bands, "blocks": blocks, "extra": extra})
}

// ---------------------------------------------------------------------------------------
// Independent writer, for archives laid out directly by the harness (C08).

pub fn encode_hunk(entries: &[Value]) -> Vec<u8> {
    // entries in the documented JSON form
    let raw = serde_json::to_vec(&Value::Array(entries.to_vec())).unwrap();
    snap::raw::Encoder::new().compress_vec(&raw).unwrap()
}

pub fn encode_block(content: &[u8]) -> (String, Vec<u8>) {
    (blake2b_hex(content), snap::raw::Encoder::new().compress_vec(content).unwrap())
}

pub fn hunk_relpath(n: u32) -> String {
    format!("i/{:05}/{:09}", n / 10000, n)
}

pub fn band_dirname(b: u32) -> String {
    format!("b{:04}", b)
}
