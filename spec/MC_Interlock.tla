----------------------------- MODULE MC_Interlock -----------------------------
(* Bounded instances of Interlock.tla. *)
EXTENDS Interlock

\* two complete versions; x is referenced only by version 0, y by version 1; w is garbage left by
\* an interrupted run.  The new source needs x (content of a version that may be deleted), w (the
\* garbage content reappears), y and a new block z.
MCInitBands  == (0 :> [head |-> TRUE, tail |-> TRUE, refs |-> {"x"}]) @@
                (1 :> [head |-> TRUE, tail |-> TRUE, refs |-> {"y"}])
MCInitBlocks == {"x", "y", "w"}
MCNeed1      == ("bk" :> <<"x", "w", "z">>)
MCChoices    == {{}, {0}, {1}, {0, 1}}
MCChoicesSmall == {{}, {0}}

\* race of two backups with differing sources on the same archive
MCNeed2      == ("bk1" :> <<"y", "z">>) @@ ("bk2" :> <<"x", "v">>)

\* THREE actors (outside the statements of C06 and C07, which speak of two): a slow backup that needs a
\* new block, a quick backup, a gc
MCNeed3      == ("bk1" :> <<"z">>) @@ ("bk2" :> <<"y">>)
==============================================================================
