SPECIFICATION Spec
CONSTANTS
  FileOwnerBeforeMode = TRUE
  SymlinkChownFollows = FALSE
  SymlinkTimesFollow = TRUE
INVARIANTS Inv_MetadataExact Inv_OutsideUntouched
CHECK_DEADLOCK FALSE
