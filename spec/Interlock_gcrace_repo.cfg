SPECIFICATION Spec
CONSTANTS
  Blocks = {"x", "y", "z", "w", "v"}
  InitBands <- MCInitBands
  InitBlocks <- MCInitBlocks
  Need <- MCNeed1
  Backups = {"bk"}
  Gcs = {"g1", "g2"}
  GcDeleteChoices <- MCChoicesSmall
  BkRechecksLock = TRUE
  GcRechecksBands = TRUE
  CreateNewEnforced = TRUE
  GcLoserRemovesLock = FALSE
INVARIANTS NoLoss LockReleased HoldsImpliesLock OneCollector
CHECK_DEADLOCK FALSE
