-------------------------------- MODULE Diff --------------------------------
(***************************************************************************)
(* What "the differences between a stored version and a tree" are (C18),   *)
(* set-theoretically, and the lock-step merge that computes them from two  *)
(* sorted streams.  A and B are trees (functions path -> node).            *)
(*                                                                         *)
(* Classification (src/change.rs doc): a path only in A is Deleted, only   *)
(* in B Added; in both it is Changed iff the kind, owner, group or mode    *)
(* differ, or (files) the size or mtime differ, or (symlinks) the target   *)
(* differs; else Unchanged.                                                *)
(***************************************************************************)
EXTENDS Reader

NodeChanged(a, b) ==
    \/ a.k # b.k
    \/ a.u # b.u \/ a.g # b.g
    \/ a.mode # b.mode
    \/ (a.k = "File" /\ (Len(a.c) # Len(b.c) \/ a.mt # b.mt))
    \/ (a.k = "Symlink" /\ a.t # b.t)

Class(A, B, p) ==
    IF p \notin DOMAIN B THEN "Deleted"
    ELSE IF p \notin DOMAIN A THEN "Added"
    ELSE IF NodeChanged(A[p], B[p]) THEN "Changed" ELSE "Unchanged"

\* the set of reported <<path, class>> pairs
SetDiff(A, B, includeUnchanged) ==
    { <<p, Class(A, B, p)>> : p \in {q \in (DOMAIN A) \cup (DOMAIN B) : includeUnchanged \/ Class(A, B, q) # "Unchanged"} }

(***************************************************************************)
(* The lock-step merge over two strictly increasing sequences of paths     *)
(* (what src/merge.rs does).  MergeDiff = SetDiff listed in path order     *)
(* whenever both inputs are sorted by the same order -- a theorem checked  *)
(* by TLC in MC_Diff.                                                      *)
(***************************************************************************)
RECURSIVE MergeFrom(_, _, _, _, _, _)
MergeFrom(A, B, sa, sb, i, j) ==
    IF i > Len(sa) /\ j > Len(sb) THEN <<>>
    ELSE IF j > Len(sb) THEN <<<<sa[i], "Deleted">>>> \o MergeFrom(A, B, sa, sb, i + 1, j)
    ELSE IF i > Len(sa) THEN <<<<sb[j], "Added">>>> \o MergeFrom(A, B, sa, sb, i, j + 1)
    ELSE IF sa[i] = sb[j]
         THEN <<<<sa[i], IF NodeChanged(A[sa[i]], B[sb[j]]) THEN "Changed" ELSE "Unchanged">>>>
                  \o MergeFrom(A, B, sa, sb, i + 1, j + 1)
    ELSE IF Less(sa[i], sb[j]) THEN <<<<sa[i], "Deleted">>>> \o MergeFrom(A, B, sa, sb, i + 1, j)
    ELSE <<<<sb[j], "Added">>>> \o MergeFrom(A, B, sa, sb, i, j + 1)

MergeDiff(A, B) == MergeFrom(A, B, SortPaths(DOMAIN A), SortPaths(DOMAIN B), 1, 1)

(***************************************************************************)
(* What the next backup's change callback is expected to name: files that  *)
(* were added or changed (paths that are files in the new tree; the        *)
(* callback is not invoked for directories and symlinks), and every path   *)
(* of the old listing that is gone.                                        *)
(***************************************************************************)
CallbackExpected(A, B) ==
    { <<p, Class(A, B, p)>> :
        p \in {q \in (DOMAIN A) \cup (DOMAIN B) :
                 \/ (q \in DOMAIN B /\ B[q].k = "File" /\ Class(A, B, q) \in {"Added", "Changed"})
                 \/ q \notin DOMAIN B} }
=============================================================================
