SPECIFICATION Spec
CONSTANTS
  TreeSet <- Trees2
  OptSet <- OptsA
  MaxBackups = 2
  MaxDeletes = 1
  MaxFaults = 0
  AllowCrash = FALSE
  AllowEmptyLeftover = FALSE
  AllowTornRmdir = FALSE
  CombinerClearsQueueOnFailedFlush = TRUE
  Hash <- HashId
  ReaderReportsHunks = TRUE
  BkRechecksLock = TRUE
  AllowConcurrent = TRUE
  GcStopsOnUnreadableHunk = TRUE
  GcBandsBeforeBlocks = TRUE
    TailCarriesCount = TRUE
  GcRefusesHeadlessNewest = TRUE
INVARIANTS Inv_QuiescentNoLoss Inv_RecordedBytes
CHECK_DEADLOCK FALSE
