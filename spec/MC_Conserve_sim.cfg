SPECIFICATION Spec
CONSTANTS
  TreeSet <- Trees3
  OptSet <- OptsB
  MaxBackups = 5
  MaxDeletes = 3
  MaxFaults = 2
  AllowCrash = TRUE
  AllowEmptyLeftover = TRUE
  AllowTornRmdir = FALSE
  CombinerClearsQueueOnFailedFlush = TRUE
  Hash <- HashId
  ReaderReportsHunks = TRUE
  BkRechecksLock = TRUE
  AllowConcurrent = TRUE
  GcStopsOnUnreadableHunk = TRUE
  GcBandsBeforeBlocks = TRUE
    TailCarriesCount = TRUE
  GcRefusesHeadlessNewest = TRUE
INVARIANTS Inv_QuiescentNoLoss Inv_RecordedBytes Inv_CompleteSuccess Inv_SkippedReported
CHECK_DEADLOCK FALSE
