SPECIFICATION Spec
CONSTANTS
  FileOwnerBeforeMode = TRUE
  SymlinkChownFollows = FALSE
  SymlinkTimesFollow = FALSE
  EmptinessSeesAllKinds = FALSE
INVARIANTS Inv_MetadataExact Inv_OutsideUntouched Inv_RefusesNonEmpty Inv_RefusedUntouched Inv_NoHangWithoutOverwrite
CHECK_DEADLOCK FALSE
