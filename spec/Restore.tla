------------------------------- MODULE Restore -------------------------------
(***************************************************************************)
(* Restore as a sequence of file-system calls on a miniature POSIX name    *)
(* space (src/restore.rs restore_file / restore_symlink / apply_deferrals, *)
(* src/owner/unix.rs, src/unix_mode.rs), with the two kernel rules that    *)
(* matter for C01 and C16:                                                 *)
(*   - changing the owner of a non-directory clears its setuid and setgid  *)
(*     bits;                                                               *)
(*   - a call through a path follows a final symlink unless it is the      *)
(*     no-follow variant (lchown, lutimes).                                *)
(* The order of the metadata calls and the variants used are constants set *)
(* to what /repo does; TLC checks, for every bounded tree, that the        *)
(* restored entries carry exactly the recorded mode and owner and that     *)
(* nothing outside the destination changes.                                *)
(***************************************************************************)
EXTENDS Integers, Sequences, FiniteSets, TLC

CONSTANTS FileOwnerBeforeMode,     \* restore_file: set_owner, then set_permissions (TRUE since ba7476d)
          SymlinkChownFollows,     \* FALSE: lchown on symlinks
          SymlinkTimesFollow       \* FALSE: lutimes on symlinks

Modes  == {420, 2541, 1517}        \* 0o644, 0o4755 (setuid), 0o2755 (setgid)
Owners == {"root", "daemon"}
SUIDGID == {2541, 1517}
Strip(m) == IF m = 2541 THEN 493 ELSE IF m = 1517 THEN 493 ELSE m   \* clear setuid/setgid -> 0o755

\* an archived entry: a file, a directory or a symlink pointing at the sentinel outside / nowhere
Entries == [k : {"File", "Dir"}, mode : Modes, owner : Owners, target : {""}]
      \cup [k : {"Symlink"}, mode : {511}, owner : Owners, target : {"OUTSIDE", "dangling"}]

Names == {"a", "b"}

VARIABLES tree,     \* what is being restored: name -> entry
          dest,     \* the destination directory: name -> inode [k, mode, owner, mtime, target]
          outside,  \* the sentinel beside the destination: [mode, owner, mtime]
          todo,     \* names still to restore (restored in name order)
          pc

vars == <<tree, dest, outside, todo, pc>>

Sentinel == [mode |-> 416, owner |-> "root", mtime |-> 7]

\* the inode a path-taking call acts on: [where |-> "dest"|"outside"|"none", name]
Resolve(d, n, follow) ==
    IF d[n].k = "Symlink" /\ follow
    THEN IF d[n].target = "OUTSIDE" THEN [where |-> "outside"] ELSE [where |-> "none"]
    ELSE [where |-> "dest"]

Chown(d, o, n, owner, follow) ==
    LET r == Resolve(d, n, follow) IN
    IF r.where = "dest"
    THEN <<[d EXCEPT ![n].owner = owner, ![n].mode = IF d[n].k = "File" THEN Strip(@) ELSE @], o>>
    ELSE IF r.where = "outside" THEN <<d, [o EXCEPT !.owner = owner, !.mode = Strip(@)]>>
    ELSE <<d, o>>

Chmod(d, o, n, mode) ==          \* chmod always follows
    LET r == Resolve(d, n, TRUE) IN
    IF r.where = "dest" THEN <<[d EXCEPT ![n].mode = mode], o>>
    ELSE IF r.where = "outside" THEN <<d, [o EXCEPT !.mode = mode]>> ELSE <<d, o>>

Utimes(d, o, n, t, follow) ==
    LET r == Resolve(d, n, follow) IN
    IF r.where = "dest" THEN <<[d EXCEPT ![n].mtime = t], o>>
    ELSE IF r.where = "outside" THEN <<d, [o EXCEPT !.mtime = t]>> ELSE <<d, o>>

Min(S) == CHOOSE x \in S : \A y \in S : x <= y
NextName == CHOOSE n \in todo : \A m \in todo : n = m \/ (n = "a")

Init ==
    /\ tree \in UNION {[S -> Entries] : S \in SUBSET Names}
    /\ dest = <<>>
    /\ outside = Sentinel
    /\ todo = DOMAIN tree
    /\ pc = "run"

\* restore one entry: creation followed by its metadata calls, in the code's order
RestoreOne ==
    /\ pc = "run" /\ todo # {}
    /\ LET n == NextName
           e == tree[n]
           created == [x \in (DOMAIN dest) \cup {n} |->
                         IF x = n THEN [k |-> e.k, mode |-> IF e.k = "Symlink" THEN 511 ELSE IF e.k = "Dir" THEN 493 ELSE 420,
                                        owner |-> "root", mtime |-> 0, target |-> e.target]
                         ELSE dest[x]]
       IN
       IF e.k = "Symlink"
       THEN LET s1 == Chown(created, outside, n, e.owner, SymlinkChownFollows)
                s2 == Utimes(s1[1], s1[2], n, 5, SymlinkTimesFollow)
            IN dest' = s2[1] /\ outside' = s2[2]
       ELSE IF e.k = "File"
       THEN LET t1 == Utimes(created, outside, n, 5, TRUE)
                a  == IF FileOwnerBeforeMode THEN Chown(t1[1], t1[2], n, e.owner, FALSE) ELSE Chmod(t1[1], t1[2], n, e.mode)
                b  == IF FileOwnerBeforeMode THEN Chmod(a[1], a[2], n, e.mode) ELSE Chown(a[1], a[2], n, e.owner, FALSE)
            IN dest' = b[1] /\ outside' = b[2]
       ELSE \* directories: owner, mode, mtime (apply_deferrals)
            LET a == Chown(created, outside, n, e.owner, FALSE)
                b == Chmod(a[1], a[2], n, e.mode)
                c == Utimes(b[1], b[2], n, 5, TRUE)
            IN dest' = c[1] /\ outside' = c[2]
    /\ todo' = todo \ {NextName}
    /\ UNCHANGED <<tree, pc>>

Finish == pc = "run" /\ todo = {} /\ pc' = "done" /\ UNCHANGED <<tree, dest, outside, todo>>

Next == RestoreOne \/ Finish
Spec == Init /\ [][Next]_vars

\* C01: every restored entry has the recorded mode (incl. setuid/setgid) and owner
Inv_MetadataExact ==
    pc = "done" => \A n \in DOMAIN tree :
        /\ dest[n].k = tree[n].k
        /\ dest[n].owner = tree[n].owner
        /\ (tree[n].k # "Symlink" => dest[n].mode = tree[n].mode)
\* C16: nothing outside the destination changes, at any moment
Inv_OutsideUntouched == outside = Sentinel
=============================================================================
