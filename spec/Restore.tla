------------------------------- MODULE Restore -------------------------------
(***************************************************************************)
(* Restore as a sequence of file-system calls on a miniature POSIX name    *)
(* space (src/restore.rs restore_file / restore_symlink / apply_deferrals, *)
(* src/owner/unix.rs, src/unix_mode.rs), with the two kernel rules that    *)
(* matter for C01 and C16:                                                 *)
(*   - changing the owner of a non-directory clears its setuid and setgid  *)
(*     bits;                                                               *)
(*   - a call through a path follows a final symlink unless it is the      *)
(*     no-follow variant (lchown, lutimes).                                *)
(* The order of the metadata calls and the variants used are constants set *)
(* to what /repo does; TLC checks, for every bounded tree, that the        *)
(* restored entries carry exactly the recorded mode and owner and that     *)
(* nothing outside the destination changes.                                *)
(* The destination may already hold an entry (a file, a directory, a       *)
(* symlink to the sentinel outside or to nowhere, a fifo): without the     *)
(* overwrite option restore must refuse it and leave it untouched          *)
(* (src/restore.rs restore(): directory_is_empty).  What the emptiness     *)
(* test looks at is a constant: the code asks read_dir, which sees every   *)
(* kind of entry; a test that only sees files and directories is refuted.  *)
(***************************************************************************)
EXTENDS Integers, Sequences, FiniteSets, TLC

CONSTANTS FileOwnerBeforeMode,     \* restore_file: set_owner, then set_permissions (TRUE since ba7476d)
          SymlinkChownFollows,     \* FALSE: lchown on symlinks
          SymlinkTimesFollow,      \* FALSE: lutimes on symlinks
          EmptinessSeesAllKinds    \* TRUE: the emptiness test of the destination sees symlinks, fifos, ... (read_dir)

Modes  == {420, 2541, 1517}        \* 0o644, 0o4755 (setuid), 0o2755 (setgid)
Owners == {"root", "daemon"}
SUIDGID == {2541, 1517}
Strip(m) == IF m = 2541 THEN 493 ELSE IF m = 1517 THEN 493 ELSE m   \* clear setuid/setgid -> 0o755

\* an archived entry: a file, a directory or a symlink pointing at the sentinel outside / nowhere
Entries == [k : {"File", "Dir"}, mode : Modes, owner : Owners, target : {""}]
      \cup [k : {"Symlink"}, mode : {511}, owner : Owners, target : {"OUTSIDE", "dangling"}]

Names == {"a", "b"}

VARIABLES tree,     \* what is being restored: name -> entry
          dest,     \* the destination directory: name -> inode [k, mode, owner, mtime, target, content]
          outside,  \* the sentinel beside the destination: [mode, owner, mtime, content]
          todo,     \* names still to restore (restored in name order)
          dest0,    \* what the destination held when restore was called
          overwrite,\* the option
          pc

vars == <<tree, dest, outside, todo, dest0, overwrite, pc>>

Sentinel == [mode |-> 416, owner |-> "root", mtime |-> 7, content |-> "precious"]

\* what the destination may hold beforehand: nothing, or one entry under a name the version also
\* has or under a name of its own
PreInodes == { [k |-> "File", mode |-> 420, owner |-> "root", mtime |-> 3, target |-> "", content |-> "keep me"],
               [k |-> "Dir", mode |-> 493, owner |-> "root", mtime |-> 3, target |-> "", content |-> ""],
               [k |-> "Symlink", mode |-> 511, owner |-> "root", mtime |-> 3, target |-> "OUTSIDE", content |-> ""],
               [k |-> "Symlink", mode |-> 511, owner |-> "root", mtime |-> 3, target |-> "dangling", content |-> ""],
               [k |-> "Fifo", mode |-> 420, owner |-> "root", mtime |-> 3, target |-> "", content |-> ""] }
PreDests == {<<>>} \cup {[x \in {n} |-> i] : n \in Names \cup {"p"}, i \in PreInodes}

\* the inode a path-taking call acts on: [where |-> "dest"|"outside"|"none", name]
Resolve(d, n, follow) ==
    IF d[n].k = "Symlink" /\ follow
    THEN IF d[n].target = "OUTSIDE" THEN [where |-> "outside"] ELSE [where |-> "none"]
    ELSE [where |-> "dest"]

Chown(d, o, n, owner, follow) ==
    LET r == Resolve(d, n, follow) IN
    IF r.where = "dest"
    THEN <<[d EXCEPT ![n].owner = owner, ![n].mode = IF d[n].k = "File" THEN Strip(@) ELSE @], o>>
    ELSE IF r.where = "outside" THEN <<d, [o EXCEPT !.owner = owner, !.mode = Strip(@)]>>
    ELSE <<d, o>>

Chmod(d, o, n, mode) ==          \* chmod always follows
    LET r == Resolve(d, n, TRUE) IN
    IF r.where = "dest" THEN <<[d EXCEPT ![n].mode = mode], o>>
    ELSE IF r.where = "outside" THEN <<d, [o EXCEPT !.mode = mode]>> ELSE <<d, o>>

Utimes(d, o, n, t, follow) ==
    LET r == Resolve(d, n, follow) IN
    IF r.where = "dest" THEN <<[d EXCEPT ![n].mtime = t], o>>
    ELSE IF r.where = "outside" THEN <<d, [o EXCEPT !.mtime = t]>> ELSE <<d, o>>

Min(S) == CHOOSE x \in S : \A y \in S : x <= y
NextName == CHOOSE n \in todo : \A m \in todo : n = m \/ (n = "a")

Init ==
    /\ tree \in UNION {[S -> Entries] : S \in SUBSET Names}
    /\ dest0 \in PreDests
    /\ dest = dest0
    /\ overwrite \in BOOLEAN
    /\ outside = Sentinel
    /\ todo = DOMAIN tree
    /\ pc = "check"

\* the emptiness test: without the overwrite option a destination that holds anything is refused
Check ==
    /\ pc = "check"
    /\ LET seen == {n \in DOMAIN dest : EmptinessSeesAllKinds \/ dest[n].k \in {"File", "Dir"}} IN
       pc' = IF ~overwrite /\ seen # {} THEN "refused" ELSE "run"
    /\ UNCHANGED <<tree, dest, outside, todo, dest0, overwrite>>

\* creating entry e under name n when the destination already holds something of that name:
\*   "fresh"   nothing there: the entry is created
\*   "reuse"   the call succeeds on what is there (File::create truncates a file; create_dir_all
\*             accepts a directory -- and, mapped from AlreadyExists, anything else)
\*   "through" File::create follows a symlink to the sentinel and writes there
\*   "error"   the call fails, the entry is skipped with an error
\*   "hang"    File::create blocks opening a fifo
HowCreated(d, n, e) ==
    IF n \notin DOMAIN d THEN "fresh"
    ELSE LET x == d[n] IN
         CASE e.k = "Symlink" -> "error"                                   \* symlink(2): EEXIST
           [] e.k = "Dir"     -> "reuse"                                   \* (AlreadyExists is mapped to Ok)
           [] e.k = "File" /\ x.k = "File" -> "reuse"
           [] e.k = "File" /\ x.k = "Dir" -> "error"                       \* EISDIR
           [] e.k = "File" /\ x.k = "Fifo" -> "hang"
           [] e.k = "File" /\ x.k = "Symlink" /\ x.target = "OUTSIDE" -> "through"
           [] OTHER -> "error"                                             \* dangling: no such directory

\* restore one entry: creation followed by its metadata calls, in the code's order
RestoreOne ==
    /\ pc = "run" /\ todo # {}
    /\ LET n == NextName
           e == tree[n]
           how == HowCreated(dest, n, e)
           fresh == [k |-> e.k, mode |-> IF e.k = "Symlink" THEN 511 ELSE IF e.k = "Dir" THEN 493 ELSE 420,
                     owner |-> "root", mtime |-> 0, target |-> e.target, content |-> IF e.k = "File" THEN "restored" ELSE ""]
           created == [x \in (DOMAIN dest) \cup {n} |->
                         IF x = n THEN (IF how = "fresh" THEN fresh
                                        ELSE IF how = "reuse" /\ e.k = "File" THEN [dest[n] EXCEPT !.content = "restored"]
                                        ELSE dest[n])
                         ELSE dest[x]]
           \* (File::create through the symlink: the bytes land in the sentinel)
           out1 == IF how = "through" THEN [outside EXCEPT !.content = "restored"] ELSE outside
       IN
       IF how = "hang" THEN pc' = "hung" /\ UNCHANGED <<dest, outside, todo>>
       ELSE /\ pc' = pc
            /\ todo' = todo \ {NextName}
            /\ IF how = "error" THEN UNCHANGED <<dest, outside>>
               ELSE IF e.k = "Symlink"
               THEN LET s1 == Chown(created, out1, n, e.owner, SymlinkChownFollows)
                        s2 == Utimes(s1[1], s1[2], n, 5, SymlinkTimesFollow)
                    IN dest' = s2[1] /\ outside' = s2[2]
               ELSE IF e.k = "File"
               \* (the times are set through the open handle: on whatever File::create opened)
               THEN LET t1 == Utimes(created, out1, n, 5, TRUE)
                        a  == IF FileOwnerBeforeMode THEN Chown(t1[1], t1[2], n, e.owner, FALSE) ELSE Chmod(t1[1], t1[2], n, e.mode)
                        b  == IF FileOwnerBeforeMode THEN Chmod(a[1], a[2], n, e.mode) ELSE Chown(a[1], a[2], n, e.owner, FALSE)
                    IN dest' = b[1] /\ outside' = b[2]
               ELSE \* directories: owner, mode, mtime (apply_deferrals)
                    LET a == Chown(created, out1, n, e.owner, FALSE)
                        b == Chmod(a[1], a[2], n, e.mode)
                        c == Utimes(b[1], b[2], n, 5, TRUE)
                    IN dest' = c[1] /\ outside' = c[2]
    /\ UNCHANGED <<tree, dest0, overwrite>>

Finish == pc = "run" /\ todo = {} /\ pc' = "done" /\ UNCHANGED <<tree, dest, outside, todo, dest0, overwrite>>

Next == Check \/ RestoreOne \/ Finish
Spec == Init /\ [][Next]_vars

\* C01: every restored entry has the recorded mode (incl. setuid/setgid) and owner
\* (into an empty destination: with the overwrite option over existing entries of other kinds
\* the statement promises nothing)
Inv_MetadataExact ==
    pc = "done" /\ dest0 = <<>> => \A n \in DOMAIN tree :
        /\ dest[n].k = tree[n].k
        /\ dest[n].owner = tree[n].owner
        /\ (tree[n].k # "Symlink" => dest[n].mode = tree[n].mode)
\* C16: nothing outside the destination changes, at any moment. (The statement is about the
\* symlinks of the SOURCE. With the overwrite option, into a destination that already holds a
\* symlink, the code does write through it -- File::create and chmod follow -- which this
\* antecedent leaves out; see DESIGN.md section 12.)
Inv_OutsideUntouched == (~overwrite \/ \A n \in DOMAIN dest0 : dest0[n].k # "Symlink") => outside = Sentinel
\* C16: without the overwrite option a destination that holds anything is refused and left as it was
Inv_RefusesNonEmpty == (~overwrite /\ dest0 # <<>>) => pc \in {"check", "refused"}
Inv_RefusedUntouched == pc = "refused" => dest = dest0 /\ outside = Sentinel
\* ... and a restore that was not refused never blocks on what it found (only reachable with overwrite)
Inv_NoHangWithoutOverwrite == pc = "hung" => overwrite
=============================================================================
