------------------------------ MODULE Conserve ------------------------------
(***************************************************************************)
(* The reference programs of backup and of delete/gc over the archive      *)
(* state of Storage.tla, one action per storage verb, with the environment *)
(* that drives them: source mutation, start of a backup with any settings, *)
(* a kill at any point (optionally leaving a zero-length file), a failing  *)
(* storage verb, delete of any set of versions, dry run.                   *)
(*                                                                         *)
(* This is the code's algorithm at toy scale (src/backup.rs backup(),      *)
(* BackupWriter, FileCombiner, store_file_content; src/archive.rs          *)
(* delete_bands; src/gc_lock.rs): contents are byte sequences, a block's   *)
(* name is its content (an injective "hash"), thresholds are 1..4 bytes or *)
(* entries.  TLC checks the monitors of Monitors.tla / Format.tla in every *)
(* reachable state; the same monitors judge real traces in Trace.tla.      *)
(***************************************************************************)
EXTENDS Validate, TLC

CONSTANTS TreeSet,        \* the source trees the environment may switch between
          OptSet,         \* settings [H, M, S] a backup may be started with
          MaxBackups,     \* bound on the number of backups started
          MaxDeletes,     \* bound on the number of delete/gc runs started
          MaxFaults,      \* bound on injected verb failures
          AllowCrash, AllowEmptyLeftover,
          AllowTornRmdir, \* a kill may come inside the recursive removal of a band directory
          \* protocol choices, set to what /repo does
          CombinerClearsQueueOnFailedFlush,
          GcStopsOnUnreadableHunk,
          GcRefusesHeadlessNewest, \* a newest band directory without a tail makes gc refuse even when it has no head yet (TRUE in /repo:
                               \* a backup that has just made its directory looks exactly like that)
          TailCarriesCount,    \* the tail states the version's hunk count (TRUE in /repo; releases before 0.6.4 did not)
          GcBandsBeforeBlocks, \* delete removes the versions' directories first, unreferenced blocks afterwards (TRUE in /repo)
          BkRechecksLock,   \* backup looks at the gc lock again after creating its band (TRUE since c3178ec)
          AllowConcurrent,  \* a backup and a delete/gc may run at the same time
          Hash(_)         \* the name of a block with this content (injective)

VARIABLES fs,       \* the archive
          src,      \* the current source tree
          bk,       \* backup actor
          gc,       \* delete/gc actor
          snap,     \* ghost: band -> tree it was made from
          partial,  \* ghost: bands written under faults
          cnt       \* ghost: [backups, deletes, faults] used so far; torn = bands half removed by a killed delete

vars == <<fs, src, bk, gc, snap, partial, cnt>>

BlockPayload(c) == [st |-> "ok", es |-> <<>>, c |-> c, nok |-> TRUE, sok |-> TRUE, count |-> -1]
HunkPayload(es) == [st |-> "ok", es |-> es, c |-> <<>>, nok |-> FALSE, sok |-> FALSE, count |-> -1]
MarkPayload     == [st |-> "ok", es |-> <<>>, c |-> <<>>, nok |-> FALSE, sok |-> FALSE, count |-> -1]
TailPayload(n)  == [MarkPayload EXCEPT !.count = IF TailCarriesCount THEN n ELSE -1]

Key(t, b, n, h) == [t |-> t, b |-> b, n |-> n, h |-> h, s |-> ""]

EntryOf(p, nd, addrs) ==
    [p |-> p, k |-> nd.k, mt |-> nd.mt, mode |-> nd.mode, u |-> nd.u, g |-> nd.g,
     a |-> addrs, t |-> nd.t, ht |-> nd.k = "Symlink", pv |-> TRUE]

\* entries sorted by path
RECURSIVE SortEntries(_)
SortEntries(S) ==
    IF S = {} THEN <<>>
    ELSE LET m == CHOOSE x \in S : \A y \in S : x = y \/ Less(x.p, y.p)
         IN  <<m>> \o SortEntries(S \ {m})

IdleBk == [pc |-> "Idle"]
IdleGc == [pc |-> "Idle"]

Init ==
    /\ fs = [EmptyFs EXCEPT !.hdr = "ok"]
    /\ src \in TreeSet
    /\ bk = IdleBk
    /\ gc = IdleGc
    /\ snap = <<>>
    /\ partial = {}
    /\ cnt = [backups |-> 0, deletes |-> 0, faults |-> 0, torn |-> {}]

Quiet == bk.pc = "Idle" /\ gc.pc = "Idle"

(***************************************************************************)
(* Environment.                                                            *)
(***************************************************************************)
Mutate ==
    /\ Quiet
    /\ \E t \in TreeSet : t # src /\ src' = t
    /\ UNCHANGED <<fs, bk, gc, snap, partial, cnt>>

StartBackup ==
    /\ IF AllowConcurrent THEN bk.pc = "Idle" ELSE Quiet
    /\ cnt.backups < MaxBackups
    /\ \E o \in OptSet :
         bk' = [pc |-> "CheckLock", o |-> o, band |-> -1, basis |-> <<>>, know |-> {},
                pending |-> <<>>, finished |-> <<>>, buf |-> <<>>, queue |-> <<>>,
                hunkNo |-> 0, todo |-> SortPaths(DOMAIN src), cur |-> <<>>, addrs |-> <<>>, buf2 |-> <<>>,
                ret |-> "", errors |-> 0, res |-> "", faulty |-> FALSE, nblk |-> 0, want |-> src]
    /\ cnt' = [cnt EXCEPT !.backups = @ + 1]
    /\ UNCHANGED <<fs, src, gc, snap, partial>>

(***************************************************************************)
(* Backup: helpers.                                                        *)
(***************************************************************************)
\* A verb of the backup may be made to fail (bounded); F is TRUE in that branch.
MayFail(F) == F \in (IF cnt.faults < MaxFaults THEN {FALSE, TRUE} ELSE {FALSE})
CountFault(F) == cnt' = IF F THEN [cnt EXCEPT !.faults = @ + 1] ELSE cnt
MarkFaulty(a, F) == IF F THEN [a EXCEPT !.faulty = TRUE] ELSE a

Abort(a, why) == [a EXCEPT !.pc = "Done", !.res = why]

BasisEntry(a, p) ==
    LET S == {e \in SeqRange(a.basis) : e.p = p} IN IF S = {} THEN None ELSE CHOOSE e \in S : TRUE

Unchanged(a, p, nd) ==
    LET e0 == BasisEntry(a, p) IN
    /\ e0 # None
    /\ e0.k = "File" /\ nd.k = "File"
    /\ e0.mt = nd.mt
    /\ EntrySize(e0) = Len(nd.c)
    /\ \A i \in 1..Len(e0.a) : e0.a[i].h \in a.know

Take(s, n) == SubSeq(s, 1, IF n < Len(s) THEN n ELSE Len(s))
Drop(s, n) == SubSeq(s, n + 1, Len(s))

(***************************************************************************)
(* Backup: prologue.                                                       *)
(***************************************************************************)
BkCheckLock ==
    /\ bk.pc = "CheckLock"
    /\ \E F \in BOOLEAN : MayFail(F) /\ CountFault(F) /\
         bk' = IF F THEN Abort(MarkFaulty(bk, F), "err")
               ELSE IF fs.lock THEN Abort(bk, "locked") ELSE [bk EXCEPT !.pc = "ListBands"]
    /\ UNCHANGED <<fs, src, gc, snap, partial>>

\* last_band_id: the basis is the stitched newest band; the new id is one above it
BkListBands ==
    /\ bk.pc = "ListBands"
    /\ \E F \in BOOLEAN : MayFail(F) /\ CountFault(F) /\
         bk' = IF F THEN Abort(MarkFaulty(bk, F), "err")
               ELSE [bk EXCEPT !.pc = "MkBand", !.band = LastBand(fs) + 1,
                               !.basis = IF LastBand(fs) = -1 THEN <<>> ELSE StitchOf(fs, LastBand(fs))]
    /\ UNCHANGED <<fs, src, gc, snap, partial>>

BkMkBand ==
    /\ bk.pc = "MkBand"
    /\ \E F \in BOOLEAN : MayFail(F) /\ CountFault(F) /\
         IF F THEN /\ bk' = Abort(MarkFaulty(bk, F), "err") /\ UNCHANGED <<fs, snap, partial>>
         ELSE /\ fs' = MkDirAt(fs, Key("BandDir", bk.band, -1, ""))
              /\ bk' = [bk EXCEPT !.pc = "WriteHead"]
              /\ snap' = Put(snap, bk.band, bk.want)
              /\ partial' = IF bk.faulty THEN partial \cup {bk.band} ELSE partial
    /\ UNCHANGED <<src, gc>>

BkWriteHead ==
    /\ bk.pc = "WriteHead"
    /\ \E F \in BOOLEAN : MayFail(F) /\ CountFault(F) /\
         IF F THEN /\ bk' = Abort(MarkFaulty(bk, F), "err") /\ UNCHANGED fs
         ELSE /\ fs' = SetFile(fs, Key("Head", bk.band, -1, ""), MarkPayload)
              /\ bk' = [bk EXCEPT !.pc = IF BkRechecksLock THEN "Recheck" ELSE "ListBlocks"]
    /\ UNCHANGED <<src, gc, snap, partial>>

\* the second look at the gc lock, after the band exists
BkRecheck ==
    /\ bk.pc = "Recheck"
    /\ \E F \in BOOLEAN : MayFail(F) /\ CountFault(F) /\
         bk' = IF F THEN Abort(MarkFaulty(bk, F), "err")
               ELSE IF fs.lock THEN Abort(bk, "locked") ELSE [bk EXCEPT !.pc = "ListBlocks"]
    /\ UNCHANGED <<fs, src, gc, snap, partial>>

BkListBlocks ==
    /\ bk.pc = "ListBlocks"
    /\ \E F \in BOOLEAN : MayFail(F) /\ CountFault(F) /\
         bk' = IF F THEN Abort(MarkFaulty(bk, F), "err")
               ELSE [bk EXCEPT !.pc = "Entry", !.know = PresentBlocks(fs)]
    /\ UNCHANGED <<fs, src, gc, snap, partial>>

(***************************************************************************)
(* Backup: one source entry at a time, in path order.                      *)
(***************************************************************************)
\* no storage verb: decide what the next entry needs
BkEntry ==
    /\ bk.pc = "Entry"
    /\ IF bk.todo = <<>>
       THEN bk' = [bk EXCEPT !.pc = "FlushC", !.ret = "Finish"]
       ELSE LET p  == bk.todo[1]
                nd == bk.want[p]
                a1 == [bk EXCEPT !.todo = Tail(@)]
            IN
            bk' = IF nd.k # "File" THEN [a1 EXCEPT !.pending = Append(@, EntryOf(p, nd, <<>>)), !.pc = "AfterEntry"]
                  ELSE IF Unchanged(bk, p, nd)
                       THEN [a1 EXCEPT !.pending = Append(@, EntryOf(p, nd, BasisEntry(bk, p).a)), !.pc = "AfterEntry"]
                  ELSE IF nd.c = <<>> THEN [a1 EXCEPT !.pending = Append(@, EntryOf(p, nd, <<>>)), !.pc = "AfterEntry"]
                  ELSE IF Len(nd.c) <= bk.o.S
                       THEN LET a2 == [a1 EXCEPT !.queue = Append(@, [start |-> Len(bk.buf), len |-> Len(nd.c), e |-> EntryOf(p, nd, <<>>)]),
                                                 !.buf = @ \o nd.c]
                            IN  IF Len(a2.buf) >= bk.o.M THEN [a2 EXCEPT !.pc = "FlushC", !.ret = "AfterPush"]
                                ELSE [a2 EXCEPT !.pc = "AfterEntry"]
                  ELSE [a1 EXCEPT !.pc = "Chunk", !.cur = <<p>> , !.addrs = <<>>, !.buf2 = nd.c]
    /\ UNCHANGED <<fs, src, gc, snap, partial, cnt>>

\* a large file: store it in chunks of at most M bytes, then queue its entry
BkChunk ==
    /\ bk.pc = "Chunk"
    /\ LET p == bk.cur[1]  nd == bk.want[p] IN
       IF bk.buf2 = <<>>
       THEN /\ bk' = [bk EXCEPT !.pending = Append(@, EntryOf(p, nd, bk.addrs)), !.pc = "AfterEntry"]
            /\ UNCHANGED <<fs, cnt>>
       ELSE LET c == Take(bk.buf2, bk.o.M)
                ad == [h |-> Hash(c), s |-> 0, n |-> Len(c)]
            IN
            IF Hash(c) \in bk.know
            THEN /\ bk' = [bk EXCEPT !.addrs = Append(@, ad), !.buf2 = Drop(@, bk.o.M)]
                 /\ UNCHANGED <<fs, cnt>>
            ELSE \E F \in BOOLEAN : MayFail(F) /\ CountFault(F) /\
                   IF F THEN \* the entry fails: counted, and the loop continues with the next entry
                        /\ bk' = [MarkFaulty(bk, F) EXCEPT !.errors = @ + 1, !.pc = "Entry"]
                        /\ UNCHANGED fs
                   ELSE /\ fs' = SetFile(fs, Key("Block", -1, -1, Hash(c)), BlockPayload(c))
                        /\ bk' = [bk EXCEPT !.addrs = Append(@, ad), !.buf2 = Drop(@, bk.o.M),
                                            !.know = @ \cup {Hash(c)}, !.nblk = @ + 1]
    /\ UNCHANGED <<src, gc, snap, partial>>

\* flush the combine buffer as one block; ret says where this flush was called from
BkFlushC ==
    /\ bk.pc = "FlushC"
    /\ LET next == CASE bk.ret = "AfterPush" -> "AfterEntry"
                     [] bk.ret = "Group"     -> "WriteHunk"
                     [] bk.ret = "Finish"    -> "WriteHunk"
           done(a) == [a EXCEPT !.finished = @ \o [i \in 1..Len(bk.queue) |->
                                    [bk.queue[i].e EXCEPT !.a = << [h |-> Hash(bk.buf), s |-> bk.queue[i].start, n |-> bk.queue[i].len] >>]],
                                !.queue = <<>>, !.buf = <<>>, !.pc = next]
       IN
       IF bk.queue = <<>>
       THEN /\ bk' = [bk EXCEPT !.pc = next] /\ UNCHANGED <<fs, cnt>>
       ELSE IF Hash(bk.buf) \in bk.know
       THEN /\ bk' = done(bk) /\ UNCHANGED <<fs, cnt>>
       ELSE \E F \in BOOLEAN : MayFail(F) /\ CountFault(F) /\
              IF F
              THEN /\ UNCHANGED fs
                   /\ LET a1 == [MarkFaulty(bk, F) EXCEPT !.buf = <<>>,
                                    !.queue = IF CombinerClearsQueueOnFailedFlush THEN <<>> ELSE @]
                      IN bk' = IF bk.ret = "AfterPush"
                               THEN [a1 EXCEPT !.errors = @ + 1, !.pc = "Entry"]   \* the entry fails, the loop continues
                               ELSE Abort(a1, "err")                               \* a failed drain aborts the backup
              ELSE /\ fs' = SetFile(fs, Key("Block", -1, -1, Hash(bk.buf)), BlockPayload(bk.buf))
                   /\ bk' = [done(bk) EXCEPT !.know = @ \cup {Hash(bk.buf)}, !.nblk = @ + 1]
    /\ UNCHANGED <<src, gc, snap, partial>>

BkAfterEntry ==
    /\ bk.pc = "AfterEntry"
    /\ bk' = IF Len(bk.pending) + Len(bk.queue) >= bk.o.H
             THEN [bk EXCEPT !.pc = "FlushC", !.ret = "Group"]
             ELSE [bk EXCEPT !.pc = "Entry"]
    /\ UNCHANGED <<fs, src, gc, snap, partial, cnt>>

\* drain the combiner into the index writer and write the hunk (if there is anything)
BkWriteHunk ==
    /\ bk.pc = "WriteHunk"
    /\ LET all == bk.pending \o bk.finished
           after == IF bk.ret = "Finish" THEN "Tail" ELSE "Entry"
       IN
       IF all = <<>>
       THEN /\ bk' = [bk EXCEPT !.pc = after] /\ UNCHANGED <<fs, cnt>>
       ELSE \E F \in BOOLEAN : MayFail(F) /\ CountFault(F) /\
              IF F THEN /\ bk' = Abort(MarkFaulty(bk, F), "err") /\ UNCHANGED fs
              ELSE /\ fs' = SetFile(fs, Key("Hunk", bk.band, bk.hunkNo, ""), HunkPayload(SortEntries(SeqRange(all))))
                   /\ bk' = [bk EXCEPT !.pending = <<>>, !.finished = <<>>, !.hunkNo = @ + 1, !.pc = after]
    /\ UNCHANGED <<src, gc, snap, partial>>

BkTail ==
    /\ bk.pc = "Tail"
    /\ \E F \in BOOLEAN : MayFail(F) /\ CountFault(F) /\
         IF F THEN /\ bk' = Abort(MarkFaulty(bk, F), "err") /\ UNCHANGED fs
         ELSE /\ fs' = SetFile(fs, Key("Tail", bk.band, -1, ""), TailPayload(bk.hunkNo))
              /\ bk' = [bk EXCEPT !.pc = "Done", !.res = "ok"]
    /\ UNCHANGED <<src, gc, snap, partial>>

\* the call returns
BkReturn ==
    /\ bk.pc = "Done"
    /\ bk' = IdleBk
    /\ partial' = IF bk.band # -1 /\ bk.band \in Bands(fs) /\ (bk.faulty \/ bk.errors > 0)
                  THEN partial \cup {bk.band} ELSE partial
    /\ UNCHANGED <<fs, src, gc, snap, cnt>>

\* a kill: nothing more happens; for a pending write optionally a zero-length file is left
BkWriteTarget ==
    CASE bk.pc = "WriteHead" -> Key("Head", bk.band, -1, "")
      [] bk.pc = "Tail"      -> Key("Tail", bk.band, -1, "")
      [] bk.pc = "WriteHunk" /\ (bk.pending \o bk.finished) # <<>> -> Key("Hunk", bk.band, bk.hunkNo, "")
      [] bk.pc = "FlushC" /\ bk.queue # <<>> /\ Hash(bk.buf) \notin bk.know -> Key("Block", -1, -1, Hash(bk.buf))
      [] bk.pc = "Chunk" /\ bk.buf2 # <<>> /\ Hash(Take(bk.buf2, bk.o.M)) \notin bk.know
                             -> Key("Block", -1, -1, Hash(Take(bk.buf2, bk.o.M)))
      [] OTHER -> Key("None", -1, -1, "")

BkCrash ==
    /\ AllowCrash
    /\ bk.pc \notin {"Idle", "Done"}
    /\ bk' = IdleBk
    /\ \/ UNCHANGED fs
       \/ /\ AllowEmptyLeftover
          /\ BkWriteTarget.t # "None"
          /\ StateOf(fs, BkWriteTarget) = "absent"
          /\ fs' = SetFile(fs, BkWriteTarget, EmptyPayload)
    /\ UNCHANGED <<src, gc, snap, partial, cnt>>

BkNext == \/ BkCheckLock \/ BkListBands \/ BkMkBand \/ BkWriteHead \/ BkRecheck \/ BkListBlocks
          \/ BkEntry \/ BkChunk \/ BkFlushC \/ BkAfterEntry \/ BkWriteHunk \/ BkTail \/ BkReturn \/ BkCrash

(***************************************************************************)
(* Delete / gc.                                                            *)
(***************************************************************************)
StartDelete ==
    /\ IF AllowConcurrent THEN gc.pc = "Idle" ELSE Quiet
    /\ cnt.deletes < MaxDeletes
    \* (--break-lock is for the stale lock of a killed delete; it may also be given when there is no lock
    \* at all -- then it must make no difference, also while a backup runs)
    /\ \E D \in SUBSET Bands(fs) : \E dry \in BOOLEAN : \E brk \in (IF (fs.lock /\ gc.pc = "Idle" /\ ~AllowConcurrent) \/ ~fs.lock THEN BOOLEAN ELSE {FALSE}) :
         gc' = [pc |-> IF brk THEN "BreakLock" ELSE "ListBands", del |-> D, dry |-> dry, last |-> -1, keep |-> {}, toread |-> {},
                referenced |-> {}, unref |-> {}, todel |-> {}, res |-> "", fs0 |-> fs, faulty |-> FALSE]
    /\ cnt' = [cnt EXCEPT !.deletes = @ + 1]
    /\ UNCHANGED <<fs, src, bk, snap, partial>>

\* delete --break-lock: an existing lock is removed first (src/gc_lock.rs break_lock), then the
\* lock is taken in the ordinary way
GcBreakLock ==
    /\ gc.pc = "BreakLock"
    /\ fs' = [fs EXCEPT !.lock = FALSE]
    /\ gc' = [gc EXCEPT !.pc = "ListBands"]
    /\ UNCHANGED <<src, bk, snap, partial, cnt>>

GcListBands ==
    /\ gc.pc = "ListBands"
    /\ gc' = [gc EXCEPT !.pc = "CheckTail", !.last = LastBand(fs)]
    /\ UNCHANGED <<fs, src, bk, snap, partial, cnt>>

GcCheckTail ==
    /\ gc.pc = "CheckTail"
    /\ gc' = IF gc.last # -1 /\ ~TailFile(fs, gc.last) /\ (GcRefusesHeadlessNewest \/ HeadOK(fs, gc.last))
             THEN [gc EXCEPT !.pc = "Done", !.res = "refused"]
             ELSE [gc EXCEPT !.pc = "CheckLock"]
    /\ UNCHANGED <<fs, src, bk, snap, partial, cnt>>

GcCheckLock ==
    /\ gc.pc = "CheckLock"
    /\ gc' = IF fs.lock THEN [gc EXCEPT !.pc = "Done", !.res = "refused"] ELSE [gc EXCEPT !.pc = "WriteLock"]
    /\ UNCHANGED <<fs, src, bk, snap, partial, cnt>>

GcWriteLock ==
    /\ gc.pc = "WriteLock"
    /\ fs' = [fs EXCEPT !.lock = TRUE]
    /\ gc' = [gc EXCEPT !.pc = "ListKeep"]
    /\ UNCHANGED <<src, bk, snap, partial, cnt>>

GcListKeep ==
    /\ gc.pc = "ListKeep"
    /\ LET k == Bands(fs) \ gc.del IN
       \* (a zero-length hunk file is the leftover of a killed write and counts as not present)
       gc' = [gc EXCEPT !.pc = "ReadRefs", !.keep = k,
                        !.toread = UNION { {<<b, n>> : n \in {x \in DOMAIN fs.bands[b].hunks : fs.bands[b].hunks[x].st # "empty"}} : b \in k }]
    /\ UNCHANGED <<fs, src, bk, snap, partial, cnt>>

\* read the head of every kept band and every hunk listed in it; a read may fail
GcReadRefs ==
    /\ gc.pc = "ReadRefs"
    /\ IF \E b \in gc.keep : ~HeadOK(fs, b) /\ (GcRefusesHeadlessNewest \/ TailFile(fs, b))
       THEN /\ gc' = [gc EXCEPT !.pc = "Release", !.res = "err"] /\ UNCHANGED cnt
       ELSE IF gc.toread = {}
       THEN /\ gc' = [gc EXCEPT !.pc = "ListBlocks"] /\ UNCHANGED cnt
       ELSE \E F \in BOOLEAN : MayFail(F) /\ CountFault(F) /\
              LET \* bands in id order, hunks in number order, as the code reads them
                  x == CHOOSE y \in gc.toread : \A z \in gc.toread : y[1] < z[1] \/ (y[1] = z[1] /\ y[2] <= z[2])
                  hk == fs.bands[x[1]].hunks[x[2]]
                  bad == F \/ hk.st # "ok"
              IN
              gc' = IF bad /\ GcStopsOnUnreadableHunk
                    THEN [gc EXCEPT !.pc = "Release", !.res = "err", !.faulty = TRUE]
                    ELSE [gc EXCEPT !.toread = @ \ {x}, !.faulty = @ \/ F,
                                    !.referenced = @ \cup (IF bad THEN {} ELSE HashesOf(hk.es))]
    /\ UNCHANGED <<fs, src, bk, snap, partial>>

GcListBlocks ==
    /\ gc.pc = "ListBlocks"
    /\ gc' = [gc EXCEPT !.pc = "Recheck", !.unref = PresentBlocks(fs) \ gc.referenced]
    /\ UNCHANGED <<fs, src, bk, snap, partial, cnt>>

GcRecheck ==
    /\ gc.pc = "Recheck"
    /\ gc' = IF gc.dry THEN [gc EXCEPT !.pc = "Release", !.res = "ok"]
             ELSE IF LastBand(fs) # gc.last THEN [gc EXCEPT !.pc = "Release", !.res = "aborted"]
             ELSE [gc EXCEPT !.pc = IF GcBandsBeforeBlocks THEN "DeleteBands" ELSE "DeleteBlocks", !.todel = gc.del]
    /\ UNCHANGED <<fs, src, bk, snap, partial, cnt>>

GcDeleteBand ==
    /\ gc.pc = "DeleteBands"
    /\ IF gc.todel = {}
       THEN /\ gc' = IF GcBandsBeforeBlocks THEN [gc EXCEPT !.pc = "DeleteBlocks"] ELSE [gc EXCEPT !.pc = "Release", !.res = "ok"]
            /\ UNCHANGED <<fs, snap, partial, cnt>>
       ELSE \E b \in gc.todel :                \* in the order of the request, which is any order (one remove_dir_all each)
            /\ fs' = RemoveDirAllAt(fs, Key("BandDir", b, -1, ""))
            /\ gc' = [gc EXCEPT !.todel = @ \ {b}]
            /\ snap' = [x \in (DOMAIN snap) \ {b} |-> snap[x]]
            /\ partial' = partial \ {b}
            /\ cnt' = [cnt EXCEPT !.torn = @ \ {b}]
    /\ UNCHANGED <<src, bk>>

GcDeleteBlock ==
    /\ gc.pc = "DeleteBlocks"
    /\ IF gc.unref = {}
       THEN /\ gc' = IF GcBandsBeforeBlocks THEN [gc EXCEPT !.pc = "Release", !.res = "ok"] ELSE [gc EXCEPT !.pc = "DeleteBands"]
            /\ UNCHANGED fs
       ELSE \E h \in gc.unref :
              /\ fs' = RemoveFileAt(fs, Key("Block", -1, -1, h))
              /\ gc' = [gc EXCEPT !.unref = @ \ {h}]
    /\ UNCHANGED <<src, bk, snap, partial, cnt>>

GcRelease ==
    /\ gc.pc = "Release"
    /\ fs' = [fs EXCEPT !.lock = FALSE]
    /\ gc' = [gc EXCEPT !.pc = "Done"]
    /\ UNCHANGED <<src, bk, snap, partial, cnt>>

GcReturn ==
    /\ gc.pc = "Done"
    /\ gc' = IdleGc
    /\ UNCHANGED <<fs, src, bk, snap, partial, cnt>>

\* a kill of the delete: the lock file stays
GcCrash ==
    /\ AllowCrash
    /\ gc.pc \notin {"Idle", "Done"}
    /\ gc' = IdleGc
    /\ UNCHANGED <<fs, src, bk, snap, partial, cnt>>

\* a kill inside the removal of a band directory: remove_dir_all is recursive and not atomic, so
\* any subset of the band's files may already be gone (the directory itself is still there).
\* The version was being deleted: it is forgotten by the snapshot ghost and remembered as torn.
GcCrashTorn ==
    /\ AllowCrash /\ AllowTornRmdir
    /\ gc.pc = "DeleteBands" /\ gc.todel # {}
    /\ \E b \in gc.todel :
       LET bd == fs.bands[b]
       IN
       /\ \E kh \in BOOLEAN, kt \in BOOLEAN, K \in SUBSET (DOMAIN bd.hunks) :
             /\ ~(kh /\ kt /\ K = DOMAIN bd.hunks)        \* (nothing removed yet: that is GcCrash)
             /\ fs' = [fs EXCEPT !.bands[b] = [head |-> IF kh THEN bd.head ELSE "absent",
                                                tail |-> IF kt THEN bd.tail ELSE "absent",
                                                tc |-> IF kt THEN bd.tc ELSE -1,
                                                hunks |-> [n \in K |-> bd.hunks[n]]]]
       /\ snap' = [x \in (DOMAIN snap) \ {b} |-> snap[x]]
       /\ partial' = partial \ {b}
       /\ cnt' = [cnt EXCEPT !.torn = @ \cup {b}]
    /\ gc' = IdleGc
    /\ UNCHANGED <<src, bk>>

\* the stale lock of a killed delete is broken by hand (delete --break-lock)
BreakLock ==
    /\ Quiet /\ fs.lock
    /\ fs' = [fs EXCEPT !.lock = FALSE]
    /\ UNCHANGED <<src, bk, gc, snap, partial, cnt>>

GcNext == \/ GcBreakLock \/ GcListBands \/ GcCheckTail \/ GcCheckLock \/ GcWriteLock \/ GcListKeep \/ GcReadRefs
          \/ GcListBlocks \/ GcRecheck \/ GcDeleteBand \/ GcDeleteBlock \/ GcRelease \/ GcReturn \/ GcCrash
          \/ GcCrashTorn

Next == Mutate \/ StartBackup \/ BkNext \/ StartDelete \/ GcNext \/ BreakLock

Spec == Init /\ [][Next]_vars

(***************************************************************************)
(* Properties (state invariants unless said otherwise).                    *)
(***************************************************************************)
\* C13: whatever has been written conforms to the documented format (what a kill inside the
\* removal of a version left of that version is not something conserve wrote)
Inv_Format == {v \in FormatViol(fs) : v[2] \notin cnt.torn} = {} /\ TailsCounted(fs)

\* C03 / C04 / C05: no index entry anywhere names a block that is missing or too short
Inv_NoDangling == Dangling(fs, Bands(fs)) = {}

\* C02 / C03 / C05: every complete version restores to the tree it was made from, at every moment
\* (a version being written by a backup that has met a storage fault may lack entries, with an
\* error reported: it is held to Inv_RecordedBytes / Inv_NoDangling / Inv_SkippedReported instead)
PartialNow == partial \cup (IF bk.pc # "Idle" /\ (bk.faulty \/ bk.errors > 0) /\ bk.band # -1 THEN {bk.band} ELSE {})
Inv_SnapRestores == SnapBroken(fs, snap, PartialNow) = {}

\* C04 / C02: every recorded file entry holds that file's bytes
Inv_RecordedBytes == RecordedWrong(fs, snap) = {}

\* C01 / C04: a backup that reports complete success restored everything
Inv_CompleteSuccess ==
    (bk.pc = "Done" /\ bk.res = "ok" /\ bk.errors = 0 /\ ~bk.faulty)
        => (Complete(fs, bk.band) /\ RestoreOf(fs, bk.band) = bk.want)

\* C04: if anything was skipped an error is reported
Inv_SkippedReported ==
    (bk.pc = "Done" /\ bk.res = "ok" /\ RestoreOf(fs, bk.band) # bk.want) => bk.errors > 0

\* C14: a backup of a tree unchanged since a complete basis stores nothing new
Inv_UnchangedStoresNothing ==
    (bk.pc = "Done" /\ bk.res = "ok" /\ ~bk.faulty /\ bk.band > 0 /\ (bk.band - 1) \in DOMAIN snap
        /\ Complete(fs, bk.band - 1) /\ (bk.band - 1) \notin partial /\ snap[bk.band - 1] = bk.want)
        => bk.nblk = 0

\* C05: a delete that succeeded removed exactly the requested versions, kept every referenced
\* block and left no unreferenced one; a dry run changed nothing
Inv_GcExact ==
    (gc.pc = "Done" /\ gc.res = "ok") =>
        IF gc.dry THEN fs = [gc.fs0 EXCEPT !.lock = FALSE]     \* (a broken stale lock aside)
        ELSE /\ Bands(fs) = Bands(gc.fs0) \ gc.del
             /\ PresentBlocks(fs) = Referenced(fs, Bands(fs)) \cap PresentBlocks(gc.fs0)
             /\ ~fs.lock

\* C09: on every archive fault-free operation can leave (interrupted backups counted once their
\* header is readable) the validator is silent ...
Inv_ValidateQuietOnHealthy ==
    (Quiet /\ cnt.torn = {} /\ \A b \in Bands(fs) : HeadOK(fs, b)) => (~ValidatorReports(fs, FALSE) /\ ~ValidatorReports(fs, TRUE))

\* ... and after any single damage that matters and does not leave a legal state it reports
\* (full validation; quick validation for missing files)
Inv_ValidateAdequate ==
    (Quiet /\ cnt.torn = {}) => \A d \in Damages(fs) :
                LET f == ApplyDamage(fs, d) IN
                (DamageMatters(fs, f) /\ FormatViol(f) # {}) =>
                    (ValidatorReports(f, FALSE) /\ (d.how = "delete" => ValidatorReports(f, TRUE)))

\* C06: once a concurrent backup and delete/gc have both finished, every complete version is whole
Inv_QuiescentNoLoss ==
    Quiet => (Dangling(fs, CompleteBands(fs)) = {} /\ SnapBroken(fs, snap, partial) = {})

\* C07 as an action property: a backup never changes or removes an existing non-empty file,
\* and a new band id is above every existing one
WriteOnceStep ==
    (bk.pc \notin {"Idle"} /\ gc.pc = "Idle") =>
        /\ \A b \in Bands(fs) : b \in Bands(fs') /\
              /\ (fs.bands[b].head = "ok" => fs'.bands[b].head = "ok")
              /\ (fs.bands[b].tail = "ok" => fs'.bands[b].tail = "ok" /\ fs'.bands[b].tc = fs.bands[b].tc)
              /\ \A n \in DOMAIN fs.bands[b].hunks : fs.bands[b].hunks[n].st = "ok" =>
                     (n \in DOMAIN fs'.bands[b].hunks /\ fs'.bands[b].hunks[n] = fs.bands[b].hunks[n])
        /\ \A h \in BlockNames(fs) : fs.blocks[h].st = "ok" => (h \in BlockNames(fs') /\ fs'.blocks[h] = fs.blocks[h])
        /\ \A b \in Bands(fs') \ Bands(fs) : \A c \in Bands(fs) : c < b
Prop_WriteOnce == [][WriteOnceStep]_vars
=============================================================================
