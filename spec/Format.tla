------------------------------- MODULE Format -------------------------------
(***************************************************************************)
(* doc/format.md (archive format 0.6) as a predicate over `fs`, as an      *)
(* independent reader of the documented format would check it.             *)
(* FormatViol(fs) is the set of broken rules (empty when conformant); each *)
(* element names the rule and where.                                       *)
(*                                                                         *)
(* A zero-length file is the leftover of a killed write, not something     *)
(* conserve "wrote"; it is exempt (it is exactly the state a crash may     *)
(* leave, and the format treats it as absent).                             *)
(***************************************************************************)
EXTENDS Reader

HunkNums(fs, b)    == DOMAIN fs.bands[b].hunks
\* hunks that hold something (ignoring zero-length leftovers)
RealHunks(fs, b)   == {n \in HunkNums(fs, b) : fs.bands[b].hunks[n].st # "empty"}

EntryViol(b, n, e) ==
       (IF e.pv /\ ValidPath(e.p) THEN {} ELSE {<<"entry-path-invalid", b, n>>})
  \cup (IF e.k \in {"File", "Dir", "Symlink"} THEN {} ELSE {<<"entry-kind-unknown", b, n>>})
  \cup (IF e.k # "File" /\ e.a # <<>> THEN {<<"addrs-on-non-file", b, n>>} ELSE {})
  \cup (IF e.ht /\ e.k # "Symlink" THEN {<<"target-on-non-symlink", b, n>>} ELSE {})
  \cup (IF e.k = "Symlink" /\ ~e.ht THEN {<<"symlink-without-target", b, n>>} ELSE {})

HunkViol(fs, b, n) ==
    LET hk == fs.bands[b].hunks[n] IN
    IF hk.st = "empty" THEN {}
    ELSE IF hk.st # "ok" THEN {<<"hunk-undecodable", b, n>>}
    ELSE (IF hk.es = <<>> THEN {<<"hunk-empty", b, n>>} ELSE {})
         \cup UNION {EntryViol(b, n, hk.es[i]) : i \in 1..Len(hk.es)}

BandViol(fs, b) ==
    LET R == RealHunks(fs, b)
        k == Cardinality(R)
    IN
       (IF R = 0..(k - 1) THEN {} ELSE {<<"hunks-not-consecutive-from-zero", b, k>>})
  \cup UNION {HunkViol(fs, b, n) : n \in HunkNums(fs, b)}
  \cup (IF StrictlyIncreasing(OwnEntries(fs, b)) THEN {} ELSE {<<"entries-not-strictly-increasing", b, -1>>})
  \cup (IF fs.bands[b].head = "garbage" THEN {<<"head-undecodable", b, -1>>} ELSE {})
  \cup (IF fs.bands[b].tail = "garbage" THEN {<<"tail-undecodable", b, -1>>} ELSE {})
  \* (a tail without a count, tc = -1, is what releases before 0.6.4 wrote: legal to find, see
  \* TailsCounted for what may be written)
  \cup (IF fs.bands[b].tail = "ok" /\ fs.bands[b].tc # -1 /\ fs.bands[b].tc # k
        THEN {<<"tail-hunk-count-wrong", b, fs.bands[b].tc>>} ELSE {})
  \cup (IF fs.bands[b].tail = "ok" /\ fs.bands[b].head # "ok" THEN {<<"tail-without-head", b, -1>>} ELSE {})
  \* the head is written before any hunk
  \cup (IF R # {} /\ fs.bands[b].head # "ok" THEN {<<"hunks-without-head", b, -1>>} ELSE {})

BlockViol(fs, h) ==
    LET bl == fs.blocks[h] IN
    IF bl.st = "empty" THEN {}
    ELSE IF bl.st # "ok" THEN {<<"block-undecodable", -1, -1>>}
    ELSE (IF bl.nok THEN {} ELSE {<<"block-name-not-hash", -1, -1>>})
         \cup (IF bl.sok THEN {} ELSE {<<"block-wrong-subdir", -1, -1>>})
         \cup (IF bl.c = <<>> THEN {<<"block-empty-content", -1, -1>>} ELSE {})

AddrViol(fs) ==
    UNION { { <<"address-outside-block", b, -1>> :
                x \in {e \in SeqRange(OwnEntries(fs, b)) : \E i \in 1..Len(e.a) : ~AddrBacked(fs, e.a[i])} }
            : b \in Bands(fs) }

FormatViol(fs) ==
       UNION {BandViol(fs, b) : b \in Bands(fs)}
  \cup UNION {BlockViol(fs, h) : h \in BlockNames(fs)}
  \cup AddrViol(fs)
  \cup (IF fs.hdr \in {"garbage"} THEN {<<"header-undecodable", -1, -1>>} ELSE {})
  \cup (IF fs.extra = {} THEN {} ELSE {<<"unexpected-file", -1, -1>>})

FormatOK(fs) == FormatViol(fs) = {}

\* every tail states how many hunks its version has (required of what is written now)
TailsCounted(fs) == \A b \in Bands(fs) : fs.bands[b].tail = "ok" => fs.bands[b].tc # -1
=============================================================================
