SPECIFICATION Spec
CONSTANTS
  Comps <- CompsP
  Depth = 3
INVARIANTS Irreflexive Asymmetric Total Transitive ChildFirst Contiguous ParentFirst RawRoundTrip
CHECK_DEADLOCK FALSE
