----------------------------- MODULE MC_Exclude -----------------------------
(***************************************************************************)
(* C15 at design level: excluding while walking the source (prune a        *)
(* matching directory without descending, src/source.rs) and excluding     *)
(* while reading a stored tree (test every entry on its own against the    *)
(* pattern and its "/**" extension, src/index/stitch.rs) keep the same     *)
(* entries -- for EVERY tree and EVERY matcher, so the equivalence does not *)
(* depend on glob semantics.  M is the set of paths matching a base        *)
(* pattern; "matches pattern/**" means "has a strict ancestor below the    *)
(* root in M".                                                             *)
(***************************************************************************)
EXTENDS Reader, TLC

CONSTANT Universe      \* a set of paths closed under parent

VARIABLES tree, M

\* trees: subsets closed under parent, containing the root
Trees == {T \in SUBSET Universe : Root \in T /\ \A p \in T : p = Root \/ DirPart(p) \in T}

U3 == { <<>>, << <<97>> >>, << <<98>> >>, << <<97>>, <<97>> >>, << <<97>>, <<98>> >>,
        << <<97>>, <<97>>, <<99>> >>, << <<98>>, <<97>> >> }

U4 == U3 \cup { << <<98>>, <<97>>, <<99>> >>, << <<99>> >>, << <<97>>, <<98>>, <<97>> >> }

\* the walk: a child is visited iff its parent was visited and the child does not match
RECURSIVE Visited(_, _, _)
Visited(T, Mt, d) ==
    IF d = 0 THEN {Root}
    ELSE LET prev == Visited(T, Mt, d - 1) IN
         prev \cup {p \in T : p # Root /\ Len(p) = d /\ DirPart(p) \in prev /\ p \notin Mt}
PrunedWalk(T, Mt) == Visited(T, Mt, 3)

\* the reader's filter: drop an entry iff it matches the base pattern or the children pattern
ReaderKeeps(T, Mt) == {p \in T : ~(p \in Mt \/ \E q \in AncestorsBelowRoot(p) : q # p /\ q \in Mt)}

\* the documented meaning
Meaning(T, Mt) == {p \in T : ~Excluded(p, Mt)}

T_WalkIsMeaning   == PrunedWalk(tree, M) = Meaning(tree, M)
T_ReaderIsMeaning == ReaderKeeps(tree, M) = Meaning(tree, M)
T_Agree           == PrunedWalk(tree, M) = ReaderKeeps(tree, M)
T_RootKept        == Root \in Meaning(tree, M)

Init == tree \in Trees /\ M \in SUBSET (tree \ {Root})
Next == UNCHANGED <<tree, M>>
Spec == Init /\ [][Next]_<<tree, M>>
=============================================================================
