------------------------------- MODULE MC_Diff -------------------------------
(***************************************************************************)
(* C18 at design level: the lock-step merge of two path-sorted streams     *)
(* reports exactly the set-theoretic difference, in path order, for every  *)
(* pair of bounded trees over a path alphabet that exercises the order.    *)
(***************************************************************************)
EXTENDS Diff, TLC

CONSTANT MaxNodes

VARIABLES A, B

PathsD == { <<>>, << <<97>> >>, << <<98>> >>, << <<97>>, <<98>> >>, << <<97, 98>> >> }
NodesD == { [k |-> "File", c |-> <<1>>, t |-> <<>>, mt |-> <<1, 0>>, mode |-> 420, u |-> "root", g |-> "root"],
            [k |-> "File", c |-> <<2, 2>>, t |-> <<>>, mt |-> <<1, 0>>, mode |-> 420, u |-> "root", g |-> "root"],
            [k |-> "File", c |-> <<1>>, t |-> <<>>, mt |-> <<2, 5>>, mode |-> 420, u |-> "root", g |-> "root"],
            [k |-> "Dir", c |-> <<>>, t |-> <<>>, mt |-> <<1, 0>>, mode |-> 493, u |-> "root", g |-> "root"],
            [k |-> "Symlink", c |-> <<>>, t |-> <<120>>, mt |-> <<1, 0>>, mode |-> 511, u |-> "root", g |-> "root"] }

TreesD == UNION { [S -> NodesD] : S \in {X \in SUBSET PathsD : Cardinality(X) <= MaxNodes} }

RECURSIVE SeqToSet(_)
SeqToSet(s) == {s[i] : i \in 1..Len(s)}

T_MergeIsSetDiff == SeqToSet(MergeDiff(A, B)) = SetDiff(A, B, TRUE)
T_MergeOrdered   == LET m == MergeDiff(A, B) IN \A i \in 1..(Len(m) - 1) : Less(m[i][1], m[i + 1][1])
T_SelfUnchanged  == \A x \in SetDiff(A, A, TRUE) : x[2] = "Unchanged"
T_Callback       == CallbackExpected(A, B) \subseteq SetDiff(A, B, FALSE)

Init == A \in TreesD /\ B \in TreesD
Next == UNCHANGED <<A, B>>
Spec == Init /\ [][Next]_<<A, B>>
=============================================================================
