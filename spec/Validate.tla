------------------------------ MODULE Validate ------------------------------
(***************************************************************************)
(* C09 at design level.  `ValidatorReports(f, quick)` is the validation    *)
(* strategy of the code (src/validate.rs, src/archive.rs validate, the     *)
(* stitched reader's reports) as a predicate over the archive state:       *)
(*   - every band directory: its head must open;                           *)
(*   - walking every band's stitched listing: every head met must open,    *)
(*     the hunks present (zero-length files aside) must be numbered        *)
(*     consecutively from zero and match the tail's count, and must decode;*)
(*   - every address of every listed file entry must lie inside a block    *)
(*     that is present; with full validation every block must decode to    *)
(*     content matching its name.                                          *)
(* Damage is the replacement of one stored file by one of the abstract     *)
(* file states; `DamageMatters` says that some version that existed no     *)
(* longer restores to what it did.  The adequacy theorem (Conserve!        *)
(* Inv_ValidateAdequate) is checked by TLC over every reachable quiescent  *)
(* archive and every single damage.                                        *)
(***************************************************************************)
EXTENDS Monitors

CONSTANT ReaderReportsHunks   \* the stitched reader reports missing / undecodable hunks (TRUE in /repo since bc5a08d)

DamageMatters(h, f) ==
    \E b \in Bands(h) : HeadOK(h, b) /\ (~HeadOK(f, b) \/ RestoreOf(f, b) # RestoreOf(h, b))

\* the bands consulted when listing n
RECURSIVE ChainOf(_, _)
ChainOf(f, n) ==
    IF TailFile(f, n) \/ PrevExisting(f, n) = -1 THEN {n} ELSE {n} \cup ChainOf(f, PrevExisting(f, n))

HunksComplain(f, b) ==
    LET hs == f.bands[b].hunks
        R  == {n \in DOMAIN hs : hs[n].st # "empty"}
        k  == Cardinality(R)
    IN  \/ R # 0..(k - 1)
        \/ (f.bands[b].tail = "ok" /\ f.bands[b].tc >= 0 /\ f.bands[b].tc # k)
        \/ \E n \in R : hs[n].st # "ok"

BlockPresent(f, h) == h \in BlockNames(f) /\ f.blocks[h].st # "empty"

ValidatorReports(f, quick) ==
    \/ f.hdr # "ok"
    \/ \E b \in Bands(f) :
          \/ ~HeadOK(f, b)
          \/ \E c \in ChainOf(f, b) : ~HeadOK(f, c) \/ (ReaderReportsHunks /\ HunksComplain(f, c))
          \/ \E e \in SeqRange(StitchOf(f, b)) : e.k = "File" /\ \E i \in 1..Len(e.a) :
                \/ ~BlockPresent(f, e.a[i].h)
                \/ (~quick /\ (f.blocks[e.a[i].h].st # "ok" \/ e.a[i].s + e.a[i].n > Len(f.blocks[e.a[i].h].c)))
    \/ (~quick /\ \E h \in BlockNames(f) : BlockPresent(f, h) /\ (f.blocks[h].st # "ok" \/ ~f.blocks[h].nok))

(***************************************************************************)
(* Single damages.                                                         *)
(***************************************************************************)
FileKeys(f) ==
       {[t |-> "Header", b |-> -1, n |-> -1, h |-> "", s |-> ""]}
  \cup {[t |-> "Head", b |-> b, n |-> -1, h |-> "", s |-> ""] : b \in {x \in Bands(f) : f.bands[x].head # "absent"}}
  \cup UNION {{[t |-> "Hunk", b |-> b, n |-> n, h |-> "", s |-> ""] : n \in DOMAIN f.bands[b].hunks} : b \in Bands(f)}
  \cup {[t |-> "Block", b |-> -1, n |-> -1, h |-> h, s |-> ""] : h \in BlockNames(f)}

Damages(f) == {[key |-> k, how |-> w] : k \in FileKeys(f), w \in {"delete", "empty", "garbage", "altered"}}

Garbled(st) == [st |-> st, es |-> <<>>, c |-> <<>>, nok |-> FALSE, sok |-> FALSE, count |-> -1]

ApplyDamage(f, d) ==
    IF d.how = "delete" THEN RemoveFileAt(f, d.key)
    ELSE IF d.how = "empty" THEN SetFile(f, d.key, Garbled("empty"))
    ELSE IF d.how = "garbage" THEN SetFile(f, d.key, Garbled("garbage"))
    \* a block whose bytes were altered but still decompress: content no longer matches the name
    ELSE IF d.key.t = "Block" /\ f.blocks[d.key.h].st = "ok"
         THEN [f EXCEPT !.blocks[d.key.h].nok = FALSE]
    ELSE f
=============================================================================
