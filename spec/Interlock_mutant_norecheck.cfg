SPECIFICATION Spec
CONSTANTS
  Blocks = {"x", "y", "z", "w", "v"}
  InitBands <- MCInitBands
  InitBlocks <- MCInitBlocks
  Need <- MCNeed1
  Backups = {"bk"}
  Gcs = {"gc"}
  GcDeleteChoices <- MCChoices
  BkRechecksLock = FALSE
  GcRechecksBands = TRUE
  CreateNewEnforced = FALSE
  GcLoserRemovesLock = FALSE
INVARIANTS NoLoss LockReleased
CHECK_DEADLOCK FALSE
