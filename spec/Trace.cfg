SPECIFICATION Spec
CONSTANT ReaderReportsHunks = TRUE
INVARIANT Report
POSTCONDITION Accepted
CHECK_DEADLOCK FALSE
