SPECIFICATION PSpec
CONSTANTS
  TreeSet = {}
  OptSet = {}
  MaxBackups = 0
  MaxDeletes = 0
  MaxFaults = 1000000
  AllowCrash = FALSE
  AllowEmptyLeftover = FALSE
  AllowTornRmdir = FALSE
  CombinerClearsQueueOnFailedFlush = TRUE
  ReaderReportsHunks = TRUE
  BkRechecksLock = TRUE
  AllowConcurrent = FALSE
  GcStopsOnUnreadableHunk = TRUE
  GcBandsBeforeBlocks = TRUE
    TailCarriesCount = TRUE
  GcRefusesHeadlessNewest = TRUE
  Hash <- HashT
INVARIANT Report
CHECK_DEADLOCK FALSE
