SPECIFICATION Spec
CONSTANTS
  TreeSet <- Trees2
  OptSet <- OptsC
  MaxBackups = 2
  MaxDeletes = 1
  MaxFaults = 1
  AllowCrash = FALSE
  AllowEmptyLeftover = FALSE
  AllowTornRmdir = FALSE
  CombinerClearsQueueOnFailedFlush = TRUE
  Hash <- HashId
  ReaderReportsHunks = TRUE
  BkRechecksLock = TRUE
  AllowConcurrent = FALSE
  GcStopsOnUnreadableHunk = FALSE
  GcBandsBeforeBlocks = TRUE
    TailCarriesCount = TRUE
  GcRefusesHeadlessNewest = TRUE
INVARIANTS Inv_Format Inv_NoDangling Inv_SnapRestores Inv_RecordedBytes Inv_CompleteSuccess Inv_SkippedReported Inv_GcExact
PROPERTIES Prop_WriteOnce
CHECK_DEADLOCK FALSE
