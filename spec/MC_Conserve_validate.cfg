SPECIFICATION Spec
CONSTANTS
  TreeSet <- Trees2
  OptSet <- OptsA
  MaxBackups = 2
  MaxDeletes = 0
  MaxFaults = 0
  AllowCrash = TRUE
  AllowEmptyLeftover = FALSE
  AllowTornRmdir = FALSE
  CombinerClearsQueueOnFailedFlush = TRUE
  Hash <- HashId
  ReaderReportsHunks = TRUE
  BkRechecksLock = TRUE
  AllowConcurrent = FALSE
  GcStopsOnUnreadableHunk = TRUE
  GcBandsBeforeBlocks = TRUE
    TailCarriesCount = TRUE
  GcRefusesHeadlessNewest = TRUE
INVARIANTS Inv_ValidateQuietOnHealthy Inv_ValidateAdequate
CHECK_DEADLOCK FALSE
