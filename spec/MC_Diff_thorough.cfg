SPECIFICATION Spec
CONSTANTS MaxNodes = 3
INVARIANTS T_MergeIsSetDiff T_MergeOrdered T_SelfUnchanged T_Callback
CHECK_DEADLOCK FALSE
