-------------------------------- MODULE Trace --------------------------------
(***************************************************************************)
(* Trace validation: real executions of conserve, recorded by the harness  *)
(* as ndjson events (storage verbs with independently decoded payloads,    *)
(* API calls and returns, observations), are replayed through the storage  *)
(* semantics of Storage.tla.  In every intermediate state the property     *)
(* monitors are evaluated with the reference functions of Reader.tla and   *)
(* Format.tla, and every observation (listing, restored tree, validate     *)
(* verdict, ...) is compared with what the specification says it must be.  *)
(*                                                                         *)
(* Broken monitors are *collected* in `viol` (scenario, monitor, line,     *)
(* detail) so that one run judges every scenario of a shard; they are      *)
(* printed as JSON when the trace is exhausted.  The driver maps monitor   *)
(* names to properties (DESIGN.md section 7).                              *)
(***************************************************************************)
EXTENDS Validate, Diff, Json, IOUtils, TLC

Rec == ndJsonDeserialize(IOEnv.TRACE)

VARIABLES l,      \* position in Rec
          fs,     \* archive state, rebuilt verb by verb
          g,      \* ghost state: scenario, source tree, snapshots, calls in progress
          viol    \* collected violations

vars == <<l, fs, g, viol>>

(***************************************************************************)
(* JSON -> specification values.                                           *)
(***************************************************************************)
FsOfJson(j) ==
    [hdr   |-> j.hdr,
     lock  |-> j.lock,
     bands |-> [b \in {x.id : x \in SeqRange(j.bands)} |->
                  LET x == CHOOSE y \in SeqRange(j.bands) : y.id = b IN
                  [head |-> x.head, tail |-> x.tail, tc |-> x.tc,
                   hunks |-> [n \in {h.n : h \in SeqRange(x.hunks)} |->
                                LET h == CHOOSE y \in SeqRange(x.hunks) : y.n = n IN
                                [st |-> h.st, es |-> h.es]]]],
     blocks |-> [h \in {x.h : x \in SeqRange(j.blocks)} |->
                  LET x == CHOOSE y \in SeqRange(j.blocks) : y.h = h IN
                  [st |-> x.st, c |-> x.c, nok |-> x.nok, sok |-> x.sok]],
     extra |-> SeqRange(j.extra)]

NoCall == [fn |-> "none", id |-> 0]

InitG == [scen |-> "", mode |-> "clean", src |-> <<>>, snap |-> <<>>, partial |-> {}, owner |-> <<>>, winners |-> <<>>, calls |-> <<>>,
          saved |-> <<>>, healthy |-> EmptyFs, damaged |-> FALSE, dmgdel |-> FALSE, dmghow |-> "",
          dmgkey |-> [t |-> "", b |-> -1, n |-> -1, h |-> "", s |-> ""], adopt |-> FALSE,
          torn |-> {},   \* versions half removed by a delete killed inside remove_dir_all
          ncall |-> 0]   \* calls seen so far (a call's number identifies it, e.g. as the owner of the lock)

\* (TLC cannot hold values of different types in one set: where one monitor has several shapes of
\* detail they are turned into strings where the monitor is stated)
V(mon, detail) == {<<g.scen, mon, l, ToString(detail)>>}
If(c, S) == IF c THEN S ELSE {}

\* `partial` = versions written under injected storage faults: they may lack entries (with an
\* error reported), so they are held to RecordedBytes and NoDangling but not to their snapshot
\* (what a kill inside the removal of a version left of that version is not something conserve
\* wrote: the format rules are not applied to it)
StateMonitors(f, mode, snap, partial, keyt, torn) ==
    IF mode = "clean" THEN
           {<<"Format", x>> : x \in {v \in FormatViol(f) : v[2] \notin torn}}
      \cup {<<"NoDangling", x>> : x \in Dangling(f, Bands(f))}
      \cup {<<"SnapRestores", b>> : b \in SnapBroken(f, snap, partial)}
      \cup (IF keyt = "Hunk" THEN {<<"RecordedBytes", x>> : x \in RecordedWrong(f, snap)} ELSE {})
    \* ("mutating": the source changes under the backup -- what the version should restore to is not
    \* defined then, but what is written must still be well-formed and name only what exists)
    ELSE IF mode = "mutating" THEN
           {<<"Format", x>> : x \in {v \in FormatViol(f) : v[2] \notin torn}}
      \cup {<<"NoDangling", x>> : x \in Dangling(f, Bands(f))}
    ELSE IF mode = "fault" THEN
           {<<"Format", x>> : x \in {v \in FormatViol(f) : v[2] \notin torn}}
      \cup {<<"NoDangling", x>> : x \in Dangling(f, Bands(f))}
      \cup {<<"SnapRestores", b>> : b \in SnapBroken(f, snap, partial)}
      \cup (IF keyt = "Hunk" THEN {<<"RecordedBytes", x>> : x \in RecordedWrong(f, snap)} ELSE {})
    ELSE {}

(***************************************************************************)
(* Per-verb monitors: what each kind of actor may do to the archive.       *)
(***************************************************************************)
CallOf(a) == IF a \in DOMAIN g.calls THEN g.calls[a] ELSE NoCall

OpMonitors(r, c) ==
    LET key == r.key
        ok  == r.res = "ok" /\ r.inj = ""
        mut == IsMutating(r.verb)
    IN
    \* the write contract: a create-new write must refuse an existing file
       \* (for files outside the format the model does not track emptiness: use the measured pre-state)
       If(r.verb = "write" /\ r.inj = "" /\ r.res \in {"ok", "AlreadyExists"} /\
             r.res \notin WriteAdmitsIn(IF key.t = "Other"
                                        THEN (CASE r.pre = "absent" -> "absent" [] r.pre = "empty" -> "empty" [] OTHER -> "ok")
                                        ELSE StateOf(fs, key), r.mode),
          {<<"CreateNewContract", <<key.t, StateOf(fs, key), r.pre, r.res>> >>})
  \cup If(c.fn = "backup" /\ ok /\ r.verb = "write" /\ (r.pre = "nonempty" \/ StateOf(fs, key) \in {"ok", "garbage"}),
          {<<"BackupOverwrote", key.t>>})
  \cup If(c.fn = "backup" /\ ok /\ r.verb \in {"remove_file", "remove_dir_all"},
          {<<"BackupRemoved", key.t>>})
  \* a tail written now says how many hunks the version has (only old archives lack the count)
  \cup If(c.fn = "backup" /\ ok /\ r.verb = "write" /\ key.t = "Tail" /\ r.dec.st = "ok" /\ r.dec.count = -1,
          {<<"Format", <<"tail-written-without-hunk-count", key.b, -1>> >>})
  \* a new version's id is above every band directory that exists (a directory created by a
  \* backup racing with this call, after this call began, is not "existing" in that sense)
  \cup If(c.fn = "backup" /\ ok /\ r.verb = "create_dir" /\ key.t = "BandDir"
             /\ \E x \in (IF key.b \in Bands(fs) THEN Bands(c.fs0) ELSE Bands(fs)) : x >= key.b,
          {<<"NewBandNotAbove", key.b>>})
  \* a backup writes only under the band it created itself, and nobody else created that band
  \* (a version belongs to whoever succeeded in writing its head)
  \cup If(c.fn = "backup" /\ ok /\ r.verb = "write" /\ key.t \in {"Head", "Tail", "Hunk"}
             /\ (key.b # c.band \/ (key.t # "Head" /\ key.b \in DOMAIN g.owner /\ g.owner[key.b] # r.actor)),
          {<<"WroteIntoOthersBand", <<key.t, key.b>> >>})
  \cup If(c.fn = "delete" /\ ok /\ r.verb = "write" /\ key.t # "Lock", {<<"GcWrote", key.t>>})
  \cup If(c.fn = "delete" /\ ok /\ r.verb = "remove_dir_all"
             /\ ~(key.t = "BandDir" /\ key.b \in SeqRange(c.bands)),
          {<<"GcRemovedUnrequested", key.t>>})
  \cup If(c.fn = "delete" /\ ok /\ r.verb = "remove_file" /\ key.t \notin {"Block", "Lock"},
          {<<"GcRemovedUnrequested", key.t>>})
  \cup If(c.fn = "delete" /\ ok /\ r.verb = "remove_file" /\ key.t = "Block"
             /\ key.h \in Referenced(fs, Bands(fs) \ SeqRange(c.bands)),
          {<<"GcRemovedReferenced", key.h>>})
  \* a delete removes only its own lock (g.owner[-1] = the actor whose write of GC_LOCK succeeded);
  \* --break-lock is the explicit request to remove somebody else's
  \cup If(c.fn = "delete" /\ ok /\ r.verb = "remove_file" /\ key.t = "Lock" /\ ~c.brk
             /\ -1 \in DOMAIN g.owner /\ g.owner[-1] # c.id,
          {<<"GcRemovedOthersLock", <<r.actor, c.id, g.owner[-1]>> >>})
  \cup If(c.fn = "delete" /\ ok /\ c.dry /\ mut /\ key.t # "Lock", {<<"DryRunMutated", key.t>>})
  \cup If(c.fn = "none" /\ r.actor \notin {"init", "probe"} /\ ok /\ mut, {<<"ReaderMutated", key.t>>})

(***************************************************************************)
(* Events.                                                                 *)
(***************************************************************************)
DoScenario(r) ==
    /\ fs' = EmptyFs
    /\ g' = [InitG EXCEPT !.scen = r.id, !.mode = r.mode]
    /\ viol' = viol

DoSrc(r) ==
    /\ g' = [g EXCEPT !.src = TreeOfNodes(r.tree)]
    /\ UNCHANGED <<fs, viol>>

\* the tree a backup with these exclusions is expected to store
Expected(src, m) == TreeSel(src, Root, SeqRange(m))

DoCall(r) ==
    /\ g' = [g EXCEPT !.ncall = @ + 1, !.calls = Put(@, r.actor,
                [id |-> g.ncall + 1, fn |-> r.fn, H |-> r.H, M |-> r.M, S |-> r.S, match |-> r.match,
                 bands |-> r.bands, dry |-> r.dry, injected |-> r.injected, brk |-> r.brk,
                 fs0 |-> fs, want |-> Expected(IF r.own_tree THEN TreeOfNodes(r.tree) ELSE g.src, r.match),
                 band |-> -1, nblk |-> 0])]
    /\ UNCHANGED <<fs, viol>>

DoOp(r) ==
    LET c   == CallOf(r.actor)
        f2  == ApplyVerb(fs, r.verb, r.key, r.dec, r.res, r.inj)
        newband == c.fn = "backup" /\ r.verb = "create_dir" /\ r.key.t = "BandDir" /\ r.res = "ok"
                   /\ r.inj = "" /\ c.band = -1
        firstmaker == newband /\ r.key.b \notin Bands(fs)
        \* the version is made by whoever writes its head (the directory may have been created by
        \* a racing backup that then lost); until a head exists the directory's creator stands in
        headw == c.fn = "backup" /\ r.verb = "write" /\ r.key.t = "Head" /\ r.res = "ok" /\ r.inj = ""
                 /\ StateOf(fs, r.key) \in {"absent", "empty"}
        claims == firstmaker \/ headw
        \* a file removed by the part of a remove_dir_all that happened before a kill: the version
        \* was being deleted, it is forgotten by the snapshot ghost and remembered as torn
        tornop == r.inj = "torn" /\ r.key.b \in Bands(fs)
        torn2 == IF tornop THEN g.torn \cup {r.key.b} ELSE g.torn
        snap1 == IF tornop THEN [x \in (DOMAIN g.snap) \ {r.key.b} |-> g.snap[x]] ELSE g.snap
        snap2 == IF claims THEN Put(snap1, r.key.b, c.want) ELSE snap1
        part1 == IF tornop THEN g.partial \ {r.key.b} ELSE g.partial
        part2 == IF claims THEN (IF c.injected THEN part1 \cup {r.key.b} ELSE part1 \ {r.key.b}) ELSE part1
        lockw == c.fn = "delete" /\ r.verb = "write" /\ r.key.t = "Lock" /\ r.res = "ok" /\ r.inj = ""
        lockr == r.verb = "remove_file" /\ r.key.t = "Lock" /\ r.res = "ok" /\ r.inj = ""
        own2  == IF headw THEN Put(g.owner, r.key.b, r.actor)
                 ELSE IF lockw THEN Put(g.owner, -1, c.id)
                 ELSE IF lockr THEN Del(g.owner, -1) ELSE g.owner
        \* a deleted version's id may be used again: forget what was known about it
        gone  == Bands(fs) \ Bands(f2)
        Forget(f) == [x \in (DOMAIN f) \ gone |-> f[x]]
        blkw == c.fn = "backup" /\ r.verb = "write" /\ r.key.t = "Block" /\ r.res = "ok" /\ r.inj = ""
        c2  == IF c.fn = "none" THEN c
               ELSE [c EXCEPT !.band = IF newband THEN r.key.b ELSE @,
                              !.nblk = IF blkw THEN @ + 1 ELSE @]
        changed == f2 # fs
    IN
    /\ fs' = f2
    /\ g' = [g EXCEPT !.snap = Forget(snap2), !.partial = part2 \ gone, !.owner = Forget(own2), !.torn = torn2 \ gone,
                      !.winners = Forget(@),
                      \* (a mutating verb whose caller was aborted while it was in flight: whether it took
                      \* effect is not known; the next projection of the directory is adopted)
                      !.adopt = @ \/ r.res = "Abandoned",
                      !.calls = IF c.fn = "none" THEN @ ELSE Put(@, r.actor, c2)]
    /\ viol' = viol
          \cup UNION {V(x[1], x[2]) : x \in OpMonitors(r, c)}
          \cup (IF changed /\ ~g.damaged
                THEN UNION {V(x[1], x[2]) : x \in StateMonitors(f2, g.mode, snap2, part2, r.key.t, torn2)}
                ELSE {})

(***************************************************************************)
(* Return of backup / delete.                                              *)
(***************************************************************************)
\* the stitched basis listing the backup started from, and the reuse rule of C14
BasisList(f0) == IF LastBand(f0) = -1 THEN <<>> ELSE StitchOf(f0, LastBand(f0))

Reusable(f0, e0, e) ==
    /\ e0.p = e.p /\ e0.k = "File" /\ e.k = "File"
    /\ e0.mt = e.mt /\ EntrySize(e0) = EntrySize(e)
    /\ \A i \in 1..Len(e0.a) : AddrBacked(f0, e0.a[i])

NotReused(f0, f, b) ==
    LET bl == BasisList(f0) IN
    { e.p : e \in {x \in SeqRange(OwnEntries(f, b)) :
                     x.k = "File" /\ \E e0 \in SeqRange(bl) : Reusable(f0, e0, x) /\ e0.a # x.a} }

AllReused(f0, f, b) ==
    LET bl == BasisList(f0) IN
    \A x \in SeqRange(OwnEntries(f, b)) :
        x.k = "File" /\ x.a # <<>> => \E e0 \in SeqRange(bl) : Reusable(f0, e0, x) /\ e0.a = x.a

BackupRetMonitors(r, c) ==
    LET \* "no error returned and none counted"
        success == r.res = "ok" /\ r.errors = 0 /\ ~r.panic
        silent  == success /\ r.mon_errors = 0
        b == c.band
        good == b # -1 /\ Complete(fs, b) /\ RestoreOf(fs, b) = c.want
        \* an unreadable head in the archive is legitimately grumbled about when stitching the basis
        \* (so is what a killed delete left of a version: missing hunks are reported when it is stitched)
        cleanStart == g.torn = {} /\ \A x \in Bands(c.fs0) : HeadOK(c.fs0, x)
        \* ("big" scenarios: contents above 64 bytes are logged as length + digest, so only what does
        \* not need the bytes of a block is judged there)
        faultfree == g.mode \in {"clean", "big"} /\ ~c.injected /\ ~g.damaged
    IN
       \* after a simulated kill the process keeps running with a dead storage; what it does
       \* then (including panicking) is not behaviour of the real system
       If(r.panic /\ ~r.crashed, {<<"Panic", r.pmsg>>})
  \cup If(r.timeout, {<<"Hang", "backup">>})
  \cup If(faultfree /\ (~success \/ (cleanStart /\ r.mon_errors # 0)),
          {<<"BackupNotClean", <<r.res, r.errors, r.mon_list>> >>})
  \cup If(~r.crashed /\ ~good /\ ~g.damaged /\ g.mode \notin {"big", "mutating"} /\ (silent \/ (faultfree /\ success)),
          {<<"CompleteSuccessWrong", <<b, IF b # -1 /\ HeadOK(fs, b) THEN TreeDiff(c.want, RestoreOf(fs, b)) ELSE {}>> >>})
  \* C10: after a stored file was deleted or emptied a new backup completes and restores exactly
  \cup If(g.damaged /\ g.dmghow \in {"delete", "trunc0"} /\ ~c.injected /\ ~r.panic /\ (r.res # "ok" \/ r.errors # 0 \/ ~good),
          {<<"BackupAfterDamage", <<g.dmghow, r.res, r.errors, r.mon_list>> >>})
  \* C18: the change callback names the added / changed / deleted files
  \cup (IF faultfree /\ success /\ ~r.crashed /\ g.torn = {} /\ AllReadable(c.fs0, BasisList(c.fs0))
        THEN LET A == TreeOfEntries(c.fs0, BasisList(c.fs0))
                 got == {<<r.changes[i].p, r.changes[i].ch>> : i \in {j \in 1..Len(r.changes) : r.changes[j].ch # "Unchanged"}}
                 exp == CallbackExpected(A, c.want)
             IN If(got # exp, {<<"CallbackWrong", <<got \ exp, exp \ got>> >>})
        ELSE {})
  \* C03: what a backup that stopped (killed, or aborted by an error it returned) recorded is the new
  \* content of EVERY path up to the last one it recorded -- no path below that point is missing.
  \* (Entries skipped with a counted error are another matter: only runs without such errors.)
  \cup (IF (r.crashed \/ r.res # "ok") /\ r.errors <= 0 /\ r.mon_errors = 0 /\ ~r.panic /\ b # -1 /\ b \in Bands(fs) /\ HeadOK(fs, b) /\ ~TailFile(fs, b)
            /\ g.mode \in {"clean", "fault"} /\ ~g.damaged /\ \A n \in DOMAIN fs.bands[b].hunks : fs.bands[b].hunks[n].st = "ok"
        THEN LET own == OwnEntries(fs, b)
                 have == {own[i].p : i \in 1..Len(own)}
                 lastp == IF own = <<>> THEN Root ELSE own[Len(own)].p
                 must == IF own = <<>> THEN {} ELSE {p \in DOMAIN c.want : LessEq(p, lastp)}
             IN If(have # must, {<<"InterruptedNotPrefix", <<b, must \ have, have \ must>> >>})
        ELSE {})
  \cup If(r.res = "ok" /\ ~r.crashed /\ r.written_blocks # c.nblk, {<<"WrittenBlocksStat", <<r.written_blocks, c.nblk>> >>})
  \cup If(success /\ ~r.crashed /\ faultfree /\ b # -1 /\ g.torn = {},
          {<<"NotReused", p>> : p \in NotReused(c.fs0, fs, b)}
          \cup If(AllReused(c.fs0, fs, b) /\ c.nblk # 0, {<<"UnchangedWroteBlocks", c.nblk>>}))

DeleteRetMonitors(r, c) ==
    LET D == SeqRange(c.bands) IN
       If(r.panic /\ ~r.crashed, {<<"Panic", r.pmsg>>})
  \cup If(r.timeout, {<<"Hang", "delete">>})
  \* (with --break-lock a stale lock is removed first: that much was asked for even of a dry run)
  \cup If(c.dry /\ ~r.crashed /\ g.mode # "conc"
             /\ (IF c.brk THEN [fs EXCEPT !.lock = FALSE] # [c.fs0 EXCEPT !.lock = FALSE] ELSE fs # c.fs0), {<<"DryRunChanged", 0>>})
  \* (--break-lock removes the stale lock before the refusal can happen: that much was asked for)
  \cup If(r.res \in {"err:DeleteWithIncompleteBackup", "err:GarbageCollectionLockHeld"} /\ ~c.injected /\ g.mode # "conc"
             /\ (IF c.brk THEN [fs EXCEPT !.lock = FALSE] # [c.fs0 EXCEPT !.lock = FALSE] ELSE fs # c.fs0),
          {<<"RefusedDeleteChanged", r.res>>})
  \cup If(r.res = "ok" /\ ~c.dry /\ ~r.crashed /\ g.mode # "conc",
             If(Bands(fs) # Bands(c.fs0) \ D, {<<"DeleteWrongBands", 0>>})
        \cup If(~(PresentBlocks(c.fs0) \cap Referenced(fs, Bands(fs)) \subseteq PresentBlocks(fs)),
                {<<"GcLostReferenced", 0>>})
        \cup If(r.errors = 0 /\ ~(PresentBlocks(fs) \subseteq Referenced(fs, Bands(fs))), {<<"GcLeftGarbage", 0>>})
        \cup If(fs.lock, {<<"LockLeft", 0>>}))

DoRet(r) ==
    LET c == CallOf(r.actor)
        won == c.fn = "backup" /\ r.res = "ok" /\ ~r.crashed /\ c.band # -1
    IN
    /\ g' = [g EXCEPT !.calls = Del(@, r.actor),
                      \* a backup that reported errors may legitimately lack entries
                      !.partial = IF c.fn = "backup" /\ c.band # -1 /\ (r.errors # 0 \/ r.mon_errors # 0 \/ r.res # "ok")
                                  THEN @ \cup {c.band} ELSE @,
                      !.winners = IF won /\ c.band \notin DOMAIN @ THEN Put(@, c.band, r.actor) ELSE @]
    /\ fs' = fs
    /\ viol' = viol \cup
         UNION {V(x[1], x[2]) : x \in
                  (IF c.fn = "backup" THEN BackupRetMonitors(r, c)
                         \* two backups may not both report success for the same version
                         \cup If(won /\ c.band \in DOMAIN g.winners, {<<"TwoWinners", c.band>>})
                   ELSE IF c.fn = "delete" THEN DeleteRetMonitors(r, c) ELSE {})}

(***************************************************************************)
(* Observations.                                                           *)
(***************************************************************************)
\* C10: containment of single-file damage, judged on a full restore of version b.
\* h = archive before the damage, f = after, T = the restored tree.
AncestorsAreDirs(T, p) == \A i \in 1..(Len(p) - 1) : SubSeq(p, 1, i) \in DOMAIN T /\ T[SubSeq(p, 1, i)].k = "Dir"

ContainmentMonitors(h, f, b, T, loud, nerr, opened, how, dk) ==
    LET hl == StitchOf(h, b)
        \* the entry's own index hunk or one of its blocks is the damaged file
        \* (a damaged head or tail touches every entry of its version as far as "untouched" goes: a
        \* flipped bit may leave the file decodable for the independent reader and still make the version
        \* unopenable, e.g. a changed format-version string)
        HeadTouched(e) == dk.t \in {"Head", "Tail"} /\ dk.b \in Bands(h) /\ e \in SeqRange(OwnEntries(h, dk.b))
        Affected(e) == \/ dk.t = "Block" /\ \E i \in 1..Len(e.a) : e.a[i].h = dk.h
                       \/ dk.t = "Hunk" /\ dk.b \in Bands(h) /\ dk.n \in DOMAIN h.bands[dk.b].hunks
                                        /\ e \in SeqRange(h.bands[dk.b].hunks[dk.n].es)

        fl == StitchOf(f, b)
        HT == RestoreOf(h, b)
        \* file entries still listed unchanged whose blocks are all intact and unchanged
        \* ("each file whose index hunk and blocks are untouched": an entry of the damaged hunk is not
        \* untouched even when a flipped bit changed another entry of that hunk only)
        untouched == {e \in SeqRange(fl) : e.k = "File" /\ e \in SeqRange(hl) /\ EntryReadable(f, e) /\ EntryReadable(h, e)
                         /\ FileBytes(f, e) = FileBytes(h, e) /\ ~Affected(e) /\ ~HeadTouched(e)}
        \* (its directories must still be listed too: a file whose directory entry sat in the damaged
        \* hunk cannot be created, which is reported)
        ListedDirs(p) == \A i \in 1..(Len(p) - 1) : \E d \in SeqRange(fl) : d.p = SubSeq(p, 1, i) /\ d.k = "Dir"
        \* (a flipped bit can turn the path of an entry of the damaged hunk into the path of another
        \* entry, or of one of its directories: the listing then claims two things for one path, restore
        \* reports the clash, and neither claim can be preferred)
        Claims(q) == Cardinality({i \in 1..Len(fl) : fl[i].p = q})
        Unambiguous(p) == \A i \in 1..Len(p) : Claims(SubSeq(p, 1, i)) = 1
        wrong == {e.p : e \in {x \in untouched : ListedDirs(x.p) /\ Unambiguous(x.p) /\ AncestorsAreDirs(T, x.p) /\ (x.p \notin DOMAIN T \/ T[x.p] # HT[x.p])}}
        \* files of the healthy version that did not come back exactly
        lostfiles == {e.p : e \in {x \in SeqRange(hl) : x.k = "File" /\ Affected(x)
                                          /\ (x.p \notin DOMAIN T \/ T[x.p] # HT[x.p])}}
    IN
       \* ("in every version that still opens")
       If(opened, {<<"UntouchedNotRestored", p>> : p \in wrong})
  \* (not demanded when what is left is a state fault-free operation can produce, e.g. the last hunk
  \* of an interrupted version gone: nothing can tell that from health)
  \cup If(how \in {"delete", "trunc0", "half", "garbage"} /\ lostfiles # {} /\ ~loud /\ FormatViol(f) # {}, {<<"AffectedSilent", ToString(lostfiles)>>})
  \* a block that is gone or no longer verifies: every file that needs it is reported, one by one
  \* (a flipped bit counts when the block no longer decodes to content matching its name)
  \cup If(dk.t = "Block" /\ ~BlockOK(f, dk.h) /\ lostfiles # {} /\ nerr < Cardinality(lostfiles),
          {<<"AffectedSilent", ToString(<<"per-file", lostfiles, nerr>>)>>})

RestoreMonitors(r) ==
    LET T0  == TreeOfNodes(r.tree)
        M   == SeqRange(r.match)
        S   == r.subtree
        lc  == LatestClosed(fs)
        b   == IF r.band = -1 THEN lc ELSE IF r.band = -2 THEN LastBand(fs) ELSE r.band
        plain == ~r.has_subtree /\ r.match = <<>> /\ r.excl = <<>>
        es  == IF b # -1 /\ HeadOK(fs, b) THEN Listing(fs, b, S, M) ELSE <<>>
        \* restoring a single nested file by path is not promised to create its parents (C12)
        subtreeIsDir == ~r.has_subtree \/ es = <<>> \/ \E e \in SeqRange(es) : e.p = S /\ e.k = "Dir"
        \* (a version half removed by a killed delete, or one stitched onto it, is not judged)
        judged == b # -1 /\ HeadOK(fs, b) /\ ~g.damaged /\ r.dest # "nonempty" /\ ConsistentBelow(es, S) /\ subtreeIsDir
                  /\ ~(\E x \in g.torn : x <= b)
                  \* (nor is the choice of "latest" while such a leftover exists: a head-less directory that
                  \* still has its tail is taken for a damaged complete version and reported, deliberately)
                  /\ (r.band # -1 \/ g.torn = {})
        \* the destination directory itself always exists; it only counts when the
        \* listing has an entry for the root
        T1  == IF \E e \in SeqRange(es) : e.p = Root THEN T0
               ELSE [p \in (DOMAIN T0) \ {Root} |-> T0[p]]
        \* with exclusions only entries below the root are compared (see ListMonitors)
        NoRoot(X) == [p \in (DOMAIN X) \ {Root} |-> X[p]]
        T   == IF r.excl = <<>> THEN T1 ELSE NoRoot(T1)
    IN
       If(r.panic, {<<"Panic", r.pmsg>>})
  \cup If(r.timeout, {<<"Hang", "restore">>})
  \cup If(~r.outside_unchanged, {<<"RestoreEscaped", 0>>})
  \cup If(r.dest = "nonempty" /\ ~r.overwrite /\ (r.res = "ok" \/ ~r.dest_unchanged), {<<"ClobberedDestination", r.res>>})
  \cup If(r.band = -1 /\ ~g.damaged /\ lc # -1 /\ g.torn = {} /\ (r.res # "ok" \/ r.picked # lc), {<<"LatestWrong", <<r.picked, lc>> >>})
  \* (an unreadable head met while stitching is legitimately grumbled about)
  \cup If(judged /\ AllReadable(fs, es) /\
             (r.res # "ok" \/ r.picked # b \/
              (r.mon_errors # 0 /\ \A x \in Bands(fs) : x <= b => fs.bands[x].head \in {"ok", "absent"})),
          {<<"RestoreFailed", <<b, r.res, r.mon_errors>> >>})
  \cup If(g.mode = "big" /\ judged /\ Complete(fs, b) /\ b \in (DOMAIN g.snap) \ g.partial /\ (r.res # "ok" \/ r.mon_errors # 0),
          {<<"RestoreFailed", <<b, r.res, r.mon_errors>> >>})
  \* ("big" scenarios log contents above 64 bytes as length + digest, 68 bytes in all: an entry whose
  \* address lies in such a block has no bytes the specification could compare)
  \cup If(judged /\ r.res = "ok" /\ AllReadable(fs, es) /\
             ~(g.mode = "big" /\ \E i \in 1..Len(es) : \E j \in 1..Len(es[i].a) :
                     es[i].a[j].h \in BlockNames(fs) /\ Len(fs.blocks[es[i].a[j].h].c) = 68) /\
             TreeSel(T, S, {}) # (IF plain THEN RestoreOf(fs, b) ELSE IF r.excl = <<>> THEN TreeOfEntries(fs, es) ELSE NoRoot(TreeOfEntries(fs, es))),
          {<<"RestoreDiffersFromListing", <<b, TreeDiff(IF plain THEN RestoreOf(fs, b) ELSE IF r.excl = <<>> THEN TreeOfEntries(fs, es) ELSE NoRoot(TreeOfEntries(fs, es)), TreeSel(T, S, {}))>> >>})
  \cup (IF g.damaged /\ plain /\ r.band >= 0 /\ r.dest # "nonempty" /\ ~r.panic /\ ~r.timeout
            /\ HeadOK(fs, r.band) /\ HeadOK(g.healthy, r.band)
        THEN ContainmentMonitors(g.healthy, fs, r.band, T0, r.res # "ok" \/ r.mon_errors > 0,
                                 IF r.res = "ok" THEN r.mon_errors ELSE 1000, r.res = "ok", g.dmghow, g.dmgkey)
        ELSE {})
  \* C16 at system-call level (the restore ran under strace): every path-taking call that creates or
  \* modifies something stays inside the destination, never goes *through* a restored symlink, and
  \* when it names a restored symlink itself it is the no-follow variant
  \cup (IF r.traced THEN
          LET kindAt(p) == IF \E e \in SeqRange(es) : e.p = p THEN (CHOOSE e \in SeqRange(es) : e.p = p).k ELSE "none" IN
          UNION { (IF ~c.inside THEN {<<"SyscallEscaped", <<"outside", c.call, c.path>> >>} ELSE {})
             \cup (IF c.inside /\ \E i \in 1..(Len(c.rel) - 1) : kindAt(SubSeq(c.rel, 1, i)) = "Symlink"
                   THEN {<<"SyscallEscaped", <<"through-symlink", c.call, c.path>> >>} ELSE {})
             \cup (IF c.inside /\ kindAt(c.rel) = "Symlink" /\ ~c.nofollow
                   THEN {<<"SyscallEscaped", <<"followed-symlink", c.call, c.path>> >>} ELSE {})
                : c \in SeqRange(r.syscalls) }
        ELSE {})
  \cup If(judged /\ r.res = "ok" /\ plain /\ Complete(fs, b) /\ b \in (DOMAIN g.snap) \ g.partial /\ T # g.snap[b],
          {<<"RestoreDiffersFromSnapshot", <<b, TreeDiff(g.snap[b], T)>> >>})

ListMonitors(r) ==
    LET b == IF r.band = -2 THEN LastBand(fs) ELSE IF r.band = -1 THEN LatestClosed(fs) ELSE r.band
        judged == b >= 0 /\ ~g.damaged /\ ~\E x \in g.torn : x <= b
    IN
       If(r.panic, {<<"Panic", r.pmsg>>})
  \cup If(r.timeout \/ r.res = "err:Unbounded", {<<"Hang", "list">>})
  \cup If(judged /\ HeadOK(fs, b) /\ r.res # "ok", {<<"ListFailed", <<b, r.res>> >>})
  \cup If(judged /\ r.res = "ok" /\ ~StrictlyIncreasing(r.entries), {<<"ListingNotIncreasing", b>>})
  \* (with exclusions the statement is about entries below the root: a pattern such as "*" also
  \* matches the path "/" on the reading side, while the walk always emits the root)
  \cup If(judged /\ r.res = "ok" /\ HeadOK(fs, b) /\
             (IF r.excl = <<>> THEN r.entries # Listing(fs, b, r.subtree, SeqRange(r.match))
              ELSE SelectSeq(r.entries, LAMBDA e : e.p # Root)
                     # SelectSeq(Listing(fs, b, r.subtree, SeqRange(r.match)), LAMBDA e : e.p # Root)),
          {<<"ListingDiffers", <<b, [i \in 1..Len(r.entries) |-> r.entries[i].p],
                                  LET x == Listing(fs, b, r.subtree, SeqRange(r.match)) IN [i \in 1..Len(x) |-> x[i].p]>> >>})

ValidateMonitors(r) ==
    LET loud == r.mon_errors > 0 \/ r.res # "ok" IN
       If(r.panic, {<<"Panic", r.pmsg>>})
  \cup If(r.timeout, {<<"Hang", "validate">>})
  \* healthy = produced by fault-free operations, interrupted backups counted once their
  \* header exists (the statement's wording); a head-less leftover is outside the clause
  \cup If(~g.damaged /\ g.mode \in {"clean", "big"} /\ loud /\ g.torn = {} /\ (\A b \in Bands(fs) : HeadOK(fs, b)),
          {<<"ValidateFalseAlarm", <<r.res, r.mon_list>> >>})
  \* Damage must be reported when some version no longer restores exactly -- unless what is left is
  \* itself a state fault-free operation can produce (e.g. the last hunk of an interrupted version
  \* gone): no validator can tell that from health.  Quick validation answers for missing files.
  \* A flipped bit is within the statement when it made the file undecodable or when the file is a
  \* data block; index hunks carry no checksum, and an altered hunk that still decodes (say with one
  \* path no longer starting with '/') is not among the damages the statement lists.
  \cup If(g.damaged /\ ~r.panic /\ ~loud /\ DamageMatters(g.healthy, fs) /\ FormatViol(fs) # {}
             /\ (g.dmghow # "bitflip" \/ g.dmgkey.t = "Block" \/ StateOf(fs, g.dmgkey) = "garbage")
             /\ (~r.quick \/ g.dmgdel),
          {<<"ValidateSilent", <<r.quick, g.dmghow, FormatViol(fs)>> >>})

VersionsMonitors(r) ==
       If(r.panic, {<<"Panic", r.pmsg>>})
  \cup If(r.timeout, {<<"Hang", "versions">>})
  \cup If(~g.damaged /\ r.res = "ok" /\
          {<<v.id, v.closed>> : v \in SeqRange(r.versions)} # {<<b, TailFile(fs, b)>> : b \in Bands(fs)},
          {<<"VersionsWrong", 0>>})

\* the source walk emits exactly the non-excluded paths of the tree, strictly increasing
WalkMonitors(r) ==
    LET ps == [i \in 1..Len(r.entries) |-> r.entries[i].p]
        M  == SeqRange(r.match)
    IN
       If(r.panic, {<<"Panic", r.pmsg>>})
  \cup If(r.res = "ok" /\ ~StrictlyIncreasing(r.entries), {<<"WalkOrder", "not strictly increasing">>})
  \* (a name that is not valid UTF-8 cannot be an archive path; the walk passes over it)
  \cup If(r.res = "ok" /\ SeqRange(ps) # {p \in DOMAIN g.src : ~Excluded(p, M)} \ SeqRange(r.undecodable),
          {<<"WalkSet", <<SeqRange(ps) \ DOMAIN g.src, ({p \in DOMAIN g.src : ~Excluded(p, M)} \ SeqRange(r.undecodable)) \ SeqRange(ps)>> >>})

\* C18: the diff stream against the set-theoretic difference of the version and the tree
DiffMonitors(r) ==
    LET b  == IF r.band = -2 THEN LastBand(fs) ELSE IF r.band = -1 THEN LatestClosed(fs) ELSE r.band
        es == IF b # -1 /\ HeadOK(fs, b) THEN StitchOf(fs, b) ELSE <<>>
        A  == TreeOfEntries(fs, es)
        B  == g.src
        got == {<<r.changes[i].p, r.changes[i].ch>> : i \in 1..Len(r.changes)}
        judged == b # -1 /\ HeadOK(fs, b) /\ ~g.damaged /\ AllReadable(fs, es) /\ r.excl = <<>> /\ ~\E x \in g.torn : x <= b
    IN
       If(r.panic, {<<"Panic", r.pmsg>>})
  \cup If(r.timeout, {<<"Hang", "diff">>})
  \cup If(judged /\ r.res # "ok", {<<"DiffWrong", ToString(<<"failed", r.res>>)>>})
  \cup If(judged /\ r.res = "ok" /\ got # SetDiff(A, B, r.overwrite),
          {<<"DiffWrong", ToString(<<got \ SetDiff(A, B, r.overwrite), SetDiff(A, B, r.overwrite) \ got>>)>>})
  \cup If(judged /\ r.res = "ok" /\ ~StrictlyIncreasing(r.changes), {<<"DiffWrong", "not in path order">>})

\* C13: where a real backup put the hunks of a band that needs more than one index sub-directory
\* (the harness's own walk of that directory against doc/format.md's i/{n / 10000}/{n})
PlacementMonitors(r) ==
       If(r.panic, {<<"Panic", r.pmsg>>})
  \cup If(r.timeout, {<<"Hang", "backup">>})
  \cup If(~r.panic /\ ~r.timeout /\
          (r.res # "ok" \/ r.misplaced # <<>> \/ ~r.consecutive \/ r.nhunks # r.expected \/ r.tail_count # r.nhunks \/ ~r.decodes),
          {<<"Format", <<"hunk-placement", r.res, r.misplaced, r.consecutive, r.nhunks, r.expected, r.tail_count, r.decodes>> >>})

DoObs(r) ==
    /\ UNCHANGED <<fs, g>>
    /\ viol' = viol \cup
         UNION {V(x[1], x[2]) : x \in
                  (CASE r.what = "restore"  -> RestoreMonitors(r)
                     [] r.what = "list"     -> ListMonitors(r)
                     [] r.what = "validate" -> ValidateMonitors(r)
                     [] r.what = "versions" -> VersionsMonitors(r)
                     [] r.what = "walk"     -> WalkMonitors(r)
                     [] r.what = "diff"     -> DiffMonitors(r)
                     [] r.what = "placement" -> PlacementMonitors(r)
                     [] OTHER -> {})}

\* The independent projection of the archive directory must equal the state rebuilt verb by
\* verb -- except right after the harness itself changed the directory (damage, layout).
DoFsck(r) ==
    LET j == FsOfJson(r.fs) IN
    /\ fs' = j
    /\ g' = [g EXCEPT !.adopt = FALSE]
    /\ viol' = viol \cup If(j # fs /\ ~g.adopt, V("BINDING", <<"fs-differs">>))

DoLayout(r) ==
    /\ g' = [g EXCEPT !.adopt = TRUE]
    /\ UNCHANGED <<fs, viol>>

DoDamage(r) ==
    /\ g' = [g EXCEPT !.healthy = IF g.damaged THEN @ ELSE fs, !.damaged = TRUE,
                      !.dmgdel = r.how = "delete", !.dmghow = r.how, !.dmgkey = r.key, !.adopt = TRUE]
    /\ UNCHANGED <<fs, viol>>

DoSave(r) ==
    /\ g' = [g EXCEPT !.saved = Append(@, [fs |-> fs, src |-> g.src, snap |-> g.snap, partial |-> g.partial, owner |-> g.owner, winners |-> g.winners, torn |-> g.torn,
                                            healthy |-> g.healthy, damaged |-> g.damaged, dmgdel |-> g.dmgdel, dmghow |-> g.dmghow, dmgkey |-> g.dmgkey])]
    /\ UNCHANGED <<fs, viol>>

DoReset(r) ==
    LET s == g.saved[Len(g.saved)] IN
    /\ fs' = s.fs
    /\ g' = [g EXCEPT !.src = s.src, !.snap = s.snap, !.partial = s.partial, !.owner = s.owner, !.winners = s.winners, !.calls = <<>>, !.torn = s.torn,
                      !.healthy = s.healthy, !.damaged = s.damaged, !.dmgdel = s.dmgdel, !.dmghow = s.dmghow, !.dmgkey = s.dmgkey]
    /\ viol' = viol

DoUnsave(r) ==
    /\ g' = [g EXCEPT !.saved = SubSeq(@, 1, Len(@) - 1)]
    /\ UNCHANGED <<fs, viol>>

\* all concurrent actors have returned: every version marked complete must be whole
DoQuiesce(r) ==
    /\ UNCHANGED <<fs, g>>
    /\ viol' = viol
          \cup UNION {V("QuiescentDangling", x) : x \in Dangling(fs, CompleteBands(fs))}
          \cup UNION {V("QuiescentSnap", b) : b \in SnapBroken(fs, g.snap, g.partial)}

(***************************************************************************)
(* The real comparator / validity test / ancestor test on a table of raw   *)
(* strings, against Apath.tla.                                             *)
(***************************************************************************)
Sign(p, q) == IF p = q THEN 0 ELSE IF Less(p, q) THEN -1 ELSE 1

ApathMonitors(r) ==
    LET n  == Len(r.strings)
        ok(i) == IsValidRaw(r.strings[i])
        P(i)  == ParseRaw(r.strings[i])
        rows  == Len(r.cmp)
    IN
       {<<"ApathTable", <<"is_valid", r.strings[i], r.valid[i]>> >> : i \in {j \in 1..n : r.valid[j] # ok(j)}}
  \cup {<<"ApathTable", <<"from_str", r.strings[i], r.fromstr[i]>> >> : i \in {j \in 1..n : r.fromstr[j] # ok(j)}}
  \cup {<<"ApathTable", <<"conversion-panics", r.strings[i], r.panics[i]>> >> : i \in {j \in 1..n : r.panics[j] # ~ok(j)}}
  \cup UNION { {<<"ApathTable", <<"cmp", r.strings[r.first + a - 1], r.strings[j], r.cmp[a][j]>> >> :
                   j \in {x \in 1..n : ok(r.first + a - 1) /\ ok(x) /\ r.cmp[a][x] # Sign(P(r.first + a - 1), P(x))}}
              : a \in 1..rows }
  \cup UNION { {<<"ApathTable", <<"is_prefix_of", r.strings[r.first + a - 1], r.strings[j], r.prefix[a][j]>> >> :
                   j \in {x \in 1..n : ok(r.first + a - 1) /\ ok(x) /\
                              r.prefix[a][x] # (IF IsAncestorOrSelf(P(r.first + a - 1), P(x)) THEN 1 ELSE 0)}}
              : a \in 1..rows }

DoApath(r) ==
    /\ UNCHANGED <<fs, g>>
    /\ viol' = viol \cup UNION {V(x[1], x[2]) : x \in ApathMonitors(r)}

\* C17: a second replay of the same history must give the same bytes (harness fact) and the same
\* decoded archive (compared here)
DoNewArchive(r) ==
    /\ fs' = EmptyFs
    /\ g' = [g EXCEPT !.snap = <<>>, !.partial = {}, !.owner = <<>>, !.winners = <<>>, !.calls = <<>>, !.torn = {}]
    /\ viol' = viol

DoDigest(r) ==
    /\ g' = [g EXCEPT !.healthy = IF r.first THEN fs ELSE @]
    /\ fs' = fs
    /\ viol' = viol
          \cup If(~r.first /\ ~r.equal, V("NotDeterministic", <<"bytes", r.diffs>>))
          \cup If(~r.first /\ fs # g.healthy, V("NotDeterministic", <<"decoded state differs">>))

Skip(r) == UNCHANGED <<fs, g, viol>>

Init == l = 1 /\ fs = EmptyFs /\ g = InitG /\ viol = {}

Next ==
    /\ l <= Len(Rec)
    /\ l' = l + 1
    /\ LET r == Rec[l] IN
       CASE r.ev = "scenario" -> DoScenario(r)
         [] r.ev = "src"      -> DoSrc(r)
         [] r.ev = "call"     -> DoCall(r)
         [] r.ev = "op"       -> DoOp(r)
         [] r.ev = "ret"      -> DoRet(r)
         [] r.ev = "obs"      -> DoObs(r)
         [] r.ev = "fsck"     -> DoFsck(r)
         [] r.ev = "damage"   -> DoDamage(r)
         [] r.ev = "layout"   -> DoLayout(r)
         [] r.ev = "save"     -> DoSave(r)
         [] r.ev = "reset"    -> DoReset(r)
         [] r.ev = "unsave"   -> DoUnsave(r)
         [] r.ev = "quiesce"  -> DoQuiesce(r)
         [] r.ev = "apath"    -> DoApath(r)
         [] r.ev = "new_archive" -> DoNewArchive(r)
         [] r.ev = "digest"   -> DoDigest(r)
         [] r.ev \in {"created", "end", "sweep", "crash", "note", "conc_begin"} -> Skip(r)

Spec == Init /\ [][Next]_vars

\* one JSON line with everything found, when the trace is exhausted
RECURSIVE SetToSeq(_)
SetToSeq(S) == IF S = {} THEN <<>> ELSE LET x == CHOOSE y \in S : TRUE IN <<x>> \o SetToSeq(S \ {x})

Report == l > Len(Rec) => JsonSerialize(IOEnv.VIOLOUT, SetToSeq(viol))

\* the whole trace was consumed
Accepted == TLCGet("stats").diameter - 1 = Len(Rec)
=============================================================================
