SPECIFICATION Spec
CONSTANTS
  Universe <- U4
INVARIANTS T_WalkIsMeaning T_ReaderIsMeaning T_Agree T_RootKept
CHECK_DEADLOCK FALSE
