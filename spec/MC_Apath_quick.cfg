SPECIFICATION Spec
CONSTANTS
  Comps <- CompsQ
  Depth = 2
INVARIANTS Irreflexive Asymmetric Total Transitive ChildFirst Contiguous ParentFirst RawRoundTrip
CHECK_DEADLOCK FALSE
