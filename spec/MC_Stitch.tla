------------------------------ MODULE MC_Stitch ------------------------------
(***************************************************************************)
(* Exhaustive check of the stitching rule (Reader!StitchOf) over ALL       *)
(* bounded arrangements of complete / incomplete / head-less / absent      *)
(* versions and ALL hunk layouts of their entries; and generator of those  *)
(* arrangements for replay into the real code (C08).                       *)
(*                                                                         *)
(* Every initial state is one arrangement `lay`.  The theorems are state   *)
(* invariants; Emit prints each arrangement as JSON for the harness.       *)
(*                                                                         *)
(* The recursive definition StitchOf is compared with an independent,      *)
(* declarative statement of the same rule (Meaning): the listing of n is   *)
(* exactly, for every path, the entry held by the newest band of n's chain *)
(* that covers the path.                                                   *)
(***************************************************************************)
EXTENDS Reader, TLC, Json

CONSTANTS PathSet,      \* sequence of paths, in increasing order
          BandIds,      \* sequence of band ids (increasing), one per slot; gaps allowed
          Offsets,      \* set of first-hunk numbers to try ({0} or {0,1}: 1 = hunk 0 missing)
          EmitCases     \* print every arrangement as JSON

VARIABLE lay

\* path alphabets (increasing under Less): "/a" "/b" "/a/b"  and  "/a" "/ab" "/b" "/a/b"
Paths3 == << << <<97>> >>, << <<98>> >>, << <<97>>, <<98>> >> >>
Paths4 == << << <<97>> >>, << <<97, 98>> >>, << <<98>> >>, << <<97>>, <<98>> >> >>
Ids013 == <<0, 1, 3>>
Ids02  == <<0, 2>>

P == Len(PathSet)
B == Len(BandIds)

RECURSIVE SortedSeq(_)
SortedSeq(S) == IF S = {} THEN <<>> ELSE LET m == SetMin(S) IN <<m>> \o SortedSeq(S \ {m})

\* all ways to cut a sequence into consecutive non-empty pieces
RECURSIVE Compositions(_)
Compositions(s) ==
    IF s = <<>> THEN {<<>>}
    ELSE UNION { { <<SubSeq(s, 1, i)>> \o rest : rest \in Compositions(SubSeq(s, i + 1, Len(s))) }
                 : i \in 1..Len(s) }

HunkLayouts == UNION { Compositions(SortedSeq(S)) : S \in SUBSET (1..P) }

BandStates ==
         [st : {"absent"}, hunks : {<<>>}, off : {0}]
    \cup [st : {"nohead"}, hunks : {<<>>, << <<1>> >>}, off : {0}]
    \* a directory whose head is gone while its tail (and perhaps a hunk) is still there: what a
    \* delete killed inside the recursive removal of the version can leave; not an existing version
    \cup [st : {"noheadtail"}, hunks : {<<>>, << <<1>> >>}, off : {0}]
    \cup [st : {"incomplete", "complete"}, hunks : HunkLayouts, off : Offsets]

\* an entry: path index i recorded by band b in hunk number n (mt identifies where it came from)
EntryOf(i, b, n) ==
    [p |-> PathSet[i], k |-> "File", mt |-> <<1000 + b, n>>, mode |-> 420, u |-> "", g |-> "",
     a |-> <<>>, t |-> <<>>, ht |-> FALSE, pv |-> TRUE]

HunksOf(bs, b) ==
    [n \in {bs.off + j - 1 : j \in 1..Len(bs.hunks)} |->
        LET h == bs.hunks[n - bs.off + 1]
        IN  [st |-> "ok", es |-> [x \in 1..Len(h) |-> EntryOf(h[x], b, n)]]]

FsOf(l) ==
    [hdr |-> "ok", lock |-> FALSE, extra |-> {},
     blocks |-> <<>>,
     bands |-> [b \in {BandIds[i] : i \in {j \in 1..B : l[j].st # "absent"}} |->
                  LET i == CHOOSE j \in 1..B : BandIds[j] = b
                      bs == l[i]
                  IN [head |-> IF bs.st \in {"nohead", "noheadtail"} THEN "absent" ELSE "ok",
                      tail |-> IF bs.st \in {"complete", "noheadtail"} THEN "ok" ELSE "absent",
                      tc   |-> IF bs.st \in {"complete", "noheadtail"} THEN Len(bs.hunks) ELSE -1,
                      hunks |-> HunksOf(bs, b)]]]

F == FsOf(lay)
Listable == {b \in Bands(F) : HeadOK(F, b)}

(***************************************************************************)
(* Declarative meaning of the rule.                                        *)
(***************************************************************************)
\* the chain of bands consulted when listing n: n, then the nearest earlier band with a head
\* as long as the current one has no tail
RECURSIVE Chain(_, _)
Chain(f, n) ==
    IF TailFile(f, n) \/ PrevExisting(f, n) = -1 THEN <<n>>
    ELSE <<n>> \o Chain(f, PrevExisting(f, n))

LastPathOf(f, b) == LET o == OwnEntries(f, b) IN IF o = <<>> THEN None ELSE [p |-> o[Len(o)].p]

\* band b covers path p: it is complete, or it is the last band of the chain, or it recorded
\* something at or after p
Covers(f, ch, i, p) ==
    \/ i = Len(ch)
    \/ TailFile(f, ch[i])
    \/ LET lp == LastPathOf(f, ch[i]) IN lp # None /\ LessEq(p, lp.p)

Owner(f, ch, p) == CHOOSE i \in 1..Len(ch) : Covers(f, ch, i, p) /\ \A j \in 1..(i - 1) : ~Covers(f, ch, j, p)

Meaning(f, n) ==
    LET ch == Chain(f, n) IN
    UNION { {e \in SeqRange(OwnEntries(f, ch[i])) : Owner(f, ch, e.p) = i} : i \in 1..Len(ch) }

(***************************************************************************)
(* Theorems.                                                               *)
(***************************************************************************)
T_Increasing == \A n \in Listable : StrictlyIncreasing(StitchOf(F, n))
T_Meaning    == \A n \in Listable : SeqRange(StitchOf(F, n)) = Meaning(F, n)
T_NoDup      == \A n \in Listable : Cardinality(SeqRange(StitchOf(F, n))) = Len(StitchOf(F, n))
\* each entry comes unmodified from the band Prov says, which is in the chain
T_Provenance == \A n \in Listable :
                   LET s == StitchOf(F, n)  pr == ProvFrom(F, n, None) IN
                   /\ Len(pr) = Len(s)
                   /\ \A i \in 1..Len(s) : s[i] \in SeqRange(OwnEntries(F, pr[i])) /\ s[i].mt[1] = 1000 + pr[i]
\* a complete version lists exactly its own entries
T_CompleteOwn == \A n \in Listable : TailFile(F, n) => StitchOf(F, n) = OwnEntries(F, n)
\* filters commute with stitching: a filtered listing is the filter of the full listing
T_Filter == \A n \in Listable : \A i \in 1..P :
                Listing(F, n, PathSet[i], {}) = SelectSeq(StitchOf(F, n), LAMBDA e : IsAncestorOrSelf(PathSet[i], e.p))

Emit == EmitCases => PrintT(<<"CASE", ToJson(lay)>>)

Init == lay \in [1..B -> BandStates]
Next == UNCHANGED lay
Spec == Init /\ [][Next]_lay
=============================================================================
