SPECIFICATION Spec
CONSTANTS
  PathSet <- Paths3
  BandIds <- Ids02
  Offsets = {0, 1}
  EmitCases = TRUE
INVARIANTS T_Increasing T_Meaning T_NoDup T_Provenance T_CompleteOwn T_Filter Emit
CHECK_DEADLOCK FALSE
