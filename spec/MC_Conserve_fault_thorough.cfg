SPECIFICATION Spec
CONSTANTS
  TreeSet <- Trees3
  OptSet <- OptsB
  MaxBackups = 2
  MaxDeletes = 1
  MaxFaults = 2
  AllowCrash = FALSE
  AllowEmptyLeftover = FALSE
  AllowTornRmdir = FALSE
  CombinerClearsQueueOnFailedFlush = TRUE
  Hash <- HashId
  ReaderReportsHunks = TRUE
  BkRechecksLock = TRUE
  AllowConcurrent = FALSE
  GcStopsOnUnreadableHunk = TRUE
  GcBandsBeforeBlocks = TRUE
    TailCarriesCount = TRUE
  GcRefusesHeadlessNewest = TRUE
INVARIANTS Inv_Format Inv_NoDangling Inv_SnapRestores Inv_RecordedBytes Inv_CompleteSuccess Inv_SkippedReported Inv_GcExact
PROPERTIES Prop_WriteOnce
CHECK_DEADLOCK FALSE
