SPECIFICATION Spec
CONSTANTS
  Blocks = {"x", "y", "z", "w", "v"}
  InitBands <- MCInitBands
  InitBlocks <- MCInitBlocks
  Need <- MCNeed2
  Backups = {"bk1", "bk2"}
  Gcs = {}
  GcDeleteChoices <- MCChoices
  BkRechecksLock = FALSE
  GcRechecksBands = TRUE
  CreateNewEnforced = FALSE
  GcLoserRemovesLock = FALSE
INVARIANTS OneWinner NoMixing
CHECK_DEADLOCK FALSE
