SPECIFICATION Spec
CONSTANTS
  TreeSet <- Trees3
  OptSet <- OptsB
  MaxBackups = 2
  MaxDeletes = 0
  MaxFaults = 0
  AllowCrash = FALSE
  AllowEmptyLeftover = FALSE
  AllowTornRmdir = FALSE
  CombinerClearsQueueOnFailedFlush = TRUE
  Hash <- HashId
  ReaderReportsHunks = TRUE
  BkRechecksLock = TRUE
  AllowConcurrent = FALSE
  GcStopsOnUnreadableHunk = TRUE
  GcBandsBeforeBlocks = TRUE
    TailCarriesCount = TRUE
  GcRefusesHeadlessNewest = TRUE
INVARIANTS Inv_Format Inv_NoDangling Inv_SnapRestores Inv_RecordedBytes Inv_CompleteSuccess Inv_SkippedReported Inv_UnchangedStoresNothing
PROPERTIES Prop_WriteOnce
CHECK_DEADLOCK FALSE
