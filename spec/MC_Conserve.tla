----------------------------- MODULE MC_Conserve -----------------------------
(* Bounded instances of Conserve.tla. *)
EXTENDS Conserve

HashId(c) == c      \* in the bounded model a block is simply named by its content

N(k, c, t, mt, mode) == [k |-> k, c |-> c, t |-> t, mt |-> mt, mode |-> mode, u |-> "root", g |-> "root"]
Pa == << <<97>> >>
Pb == << <<98>> >>
Pc == << <<99>> >>
Pd == << <<100>> >>
Pde == << <<100>>, <<101>> >>

\* two files, one of them larger than any block size used below
T1 == (Root :> N("Dir", <<>>, <<>>, <<1, 0>>, 493)) @@ (Pa :> N("File", <<1, 2, 3>>, <<>>, <<10, 0>>, 420)) @@
      (Pb :> N("File", <<1>>, <<>>, <<11, 5>>, 384))
\* /a unchanged, /b changed (new mtime), a directory with a file whose content duplicates old /b
T2 == (Root :> N("Dir", <<>>, <<>>, <<2, 0>>, 493)) @@ (Pa :> N("File", <<1, 2, 3>>, <<>>, <<10, 0>>, 420)) @@
      (Pb :> N("File", <<2>>, <<>>, <<12, 0>>, 384)) @@ (Pd :> N("Dir", <<>>, <<>>, <<3, 0>>, 448)) @@
      (Pde :> N("File", <<1>>, <<>>, <<13, 0>>, 420))
\* /a gone, a symlink, an empty file
T3 == (Root :> N("Dir", <<>>, <<>>, <<4, 0>>, 493)) @@ (Pb :> N("File", <<2>>, <<>>, <<12, 0>>, 384)) @@
      (Pc :> N("Symlink", <<>>, <<120>>, <<14, 0>>, 511)) @@ (Pd :> N("File", <<>>, <<>>, <<15, 0>>, 420))

Trees2 == {T1, T2}
Trees3 == {T1, T2, T3}
OptsA == {[H |-> 1, M |-> 2, S |-> 1], [H |-> 100, M |-> 100, S |-> 100]}
OptsB == {[H |-> 1, M |-> 2, S |-> 1], [H |-> 2, M |-> 3, S |-> 2], [H |-> 100, M |-> 100, S |-> 100]}
OptsC == {[H |-> 2, M |-> 2, S |-> 1], [H |-> 3, M |-> 4, S |-> 3]}
==============================================================================
