SPECIFICATION Spec
CONSTANTS
  FileOwnerBeforeMode = FALSE
  SymlinkChownFollows = FALSE
  SymlinkTimesFollow = FALSE
INVARIANTS Inv_MetadataExact Inv_OutsideUntouched
CHECK_DEADLOCK FALSE
