SPECIFICATION Spec
CONSTANTS
  FileOwnerBeforeMode = FALSE
  SymlinkChownFollows = FALSE
  SymlinkTimesFollow = FALSE
  EmptinessSeesAllKinds = TRUE
INVARIANTS Inv_MetadataExact Inv_OutsideUntouched Inv_RefusesNonEmpty Inv_RefusedUntouched Inv_NoHangWithoutOverwrite
CHECK_DEADLOCK FALSE
