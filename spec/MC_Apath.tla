------------------------------ MODULE MC_Apath ------------------------------
(***************************************************************************)
(* Apath.tla's order and validity rule, checked by TLC over all paths of a *)
(* bounded depth built from a component alphabet that exercises the order: *)
(* bytes below '/' (space, '-', '.'), above it, multi-byte UTF-8, shared   *)
(* prefixes.  One initial state per path p; the invariants quantify over   *)
(* all pairs (q, r), so all triples are covered, in parallel.              *)
(***************************************************************************)
EXTENDS Apath, TLC

CONSTANTS Comps,     \* set of components (byte sequences), all well-formed
          Depth      \* maximal number of components

VARIABLE p

RECURSIVE PathsUpTo(_)
PathsUpTo(d) == IF d = 0 THEN {<<>>}
                ELSE PathsUpTo(d - 1) \cup {Append(q, c) : q \in {x \in PathsUpTo(d - 1) : Len(x) = d - 1}, c \in Comps}
Paths == PathsUpTo(Depth)

\* component alphabets
CompsQ == { <<32>>, <<45>>, <<46, 97>>, <<97>>, <<97, 46, 98>>, <<97, 98>>, <<98>>, <<195, 169>>, <<195, 169, 97>>, <<122>> }
CompsT == { <<32>>, <<46, 97>>, <<97>>, <<97, 98>>, <<195, 169>>, <<122>> }
\* names that extend one another with a byte below '/' ("a", "a.b", "a-", "a b") and one above ("ab"):
\* at depth 3 these separate component-wise comparison from comparison of the directory *strings*
CompsP == { <<97>>, <<97, 46, 98>>, <<97, 45>>, <<97, 32, 98>>, <<97, 98>> }

Irreflexive == ~Less(p, p)
Asymmetric  == \A q \in Paths : ~(Less(p, q) /\ Less(q, p))
Total       == \A q \in Paths : p = q \/ Less(p, q) \/ Less(q, p)
Transitive  == \A q, r \in Paths : Less(p, q) /\ Less(q, r) => Less(p, r)
\* a directory's direct children precede its grandchildren (and deeper)
ChildFirst  == \A c, gc \in Paths :
                  (Len(c) = Len(p) + 1 /\ IsStrictAncestor(p, c) /\ Len(gc) > Len(p) + 1 /\ IsStrictAncestor(p, gc))
                      => Less(c, gc)
\* each subtree is contiguous: nothing outside it sorts between two paths that lie under p.
\* (p's own entry sits among its parent's children, before its later siblings: "/a" < "/b" < "/a/x";
\* what is contiguous is everything *below* p, which is how doc/format.md's remark is to be read.)
Contiguous  == \A x, z \in {q \in Paths : IsStrictAncestor(p, q)} : \A y \in Paths :
                  (Less(x, y) /\ Less(y, z)) => IsStrictAncestor(p, y)
\* a directory sorts before everything in it
ParentFirst == \A q \in Paths : IsStrictAncestor(p, q) => Less(p, q)
\* string form round trip and validity of every well-formed path
RawRoundTrip == IsValidRaw(RawOf(p)) /\ ParseRaw(RawOf(p)) = p /\ ValidPath(p)

Init == p \in Paths
Next == UNCHANGED p
Spec == Init /\ [][Next]_p
=============================================================================
