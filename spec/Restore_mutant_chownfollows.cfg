SPECIFICATION Spec
CONSTANTS
  FileOwnerBeforeMode = TRUE
  SymlinkChownFollows = TRUE
  SymlinkTimesFollow = FALSE
  EmptinessSeesAllKinds = TRUE
INVARIANTS Inv_MetadataExact Inv_OutsideUntouched Inv_RefusesNonEmpty Inv_RefusedUntouched Inv_NoHangWithoutOverwrite
CHECK_DEADLOCK FALSE
