SPECIFICATION Spec
CONSTANTS
  FileOwnerBeforeMode = TRUE
  SymlinkChownFollows = TRUE
  SymlinkTimesFollow = FALSE
INVARIANTS Inv_MetadataExact Inv_OutsideUntouched
CHECK_DEADLOCK FALSE
