------------------------------ MODULE Storage ------------------------------
(***************************************************************************)
(* The archive directory as an abstract value `fs`, and the effect of the  *)
(* seven storage verbs on it.  Everything conserve does to an archive goes *)
(* through these verbs (src/transport.rs), so this is the shared state of  *)
(* the whole system.                                                       *)
(*                                                                         *)
(*   fs.hdr     state of CONSERVE        "absent" | "empty" | "garbage" | "ok" *)
(*   fs.lock    GC_LOCK present?                                           *)
(*   fs.bands   function: band id (those with a directory) ->              *)
(*                 [head, tail : file state, tc : hunk count in the tail,  *)
(*                  hunks : hunk number -> [st : file state, es : entries]]*)
(*   fs.blocks  function: block name (hex) ->                              *)
(*                 [st, c : uncompressed bytes, nok : name = BLAKE2b(c),   *)
(*                  sok : stored under the first three hex digits]         *)
(*   fs.extra   set of other file names (nothing should ever be there)     *)
(*                                                                         *)
(* A file state "empty" is the zero-length leftover of a killed write.     *)
(* Index, hunk and block sub-directories carry no information and are not  *)
(* represented.                                                            *)
(*                                                                         *)
(* A key names a file or directory:                                        *)
(*   [t |-> "Header" | "Lock" | "Root" | "BlockRoot" | "BlockSub" | "Block"*)
(*          | "BandDir" | "IndexDir" | "HunkDir" | "Hunk" | "Head" | "Tail"*)
(*          | "Other", b |-> band, n |-> hunk number, h |-> block name,    *)
(*    s |-> raw path for "Other"]                                          *)
(***************************************************************************)
EXTENDS Apath, Integers

FileStates == {"absent", "empty", "garbage", "ok"}

EmptyFs == [hdr |-> "absent", lock |-> FALSE, bands |-> <<>>, blocks |-> <<>>, extra |-> {}]

NewBand == [head |-> "absent", tail |-> "absent", tc |-> -1, hunks |-> <<>>]

Put(f, k, v) == [x \in (DOMAIN f) \cup {k} |-> IF x = k THEN v ELSE f[x]]
Del(f, k)    == [x \in (DOMAIN f) \ {k} |-> f[x]]

Bands(fs)      == DOMAIN fs.bands
BlockNames(fs) == DOMAIN fs.blocks

\* The state of the file a key names: "nodir" when its band directory is missing.
StateOf(fs, key) ==
    CASE key.t = "Header" -> fs.hdr
      [] key.t = "Lock"   -> IF fs.lock THEN "ok" ELSE "absent"
      [] key.t = "Head"   -> IF key.b \in Bands(fs) THEN fs.bands[key.b].head ELSE "nodir"
      [] key.t = "Tail"   -> IF key.b \in Bands(fs) THEN fs.bands[key.b].tail ELSE "nodir"
      [] key.t = "Hunk"   -> IF key.b \in Bands(fs)
                             THEN IF key.n \in DOMAIN fs.bands[key.b].hunks
                                  THEN fs.bands[key.b].hunks[key.n].st ELSE "absent"
                             ELSE "nodir"
      [] key.t = "Block"  -> IF key.h \in BlockNames(fs) THEN fs.blocks[key.h].st ELSE "absent"
      [] key.t = "Other"  -> IF key.s \in fs.extra THEN "ok" ELSE "absent"
      [] OTHER            -> "dir"

IsFileKey(key) == key.t \in {"Header", "Lock", "Head", "Tail", "Hunk", "Block", "Other"}

\* A payload as the independent decoder sees it:
\*   [st, es (hunk entries), c, nok, sok (block), count (tail)]
EmptyPayload == [st |-> "empty", es |-> <<>>, c |-> <<>>, nok |-> FALSE, sok |-> FALSE, count |-> -1]

\* fs after the file named by key holds payload d (no check of the write mode here)
SetFile(fs, key, d) ==
    CASE key.t = "Header" -> [fs EXCEPT !.hdr = d.st]
      [] key.t = "Lock"   -> [fs EXCEPT !.lock = TRUE]
      [] key.t = "Head" /\ key.b \in Bands(fs) -> [fs EXCEPT !.bands[key.b].head = d.st]
      [] key.t = "Tail" /\ key.b \in Bands(fs) ->
             [fs EXCEPT !.bands[key.b].tail = d.st, !.bands[key.b].tc = d.count]
      [] key.t = "Hunk" /\ key.b \in Bands(fs) ->
             [fs EXCEPT !.bands[key.b].hunks = Put(@, key.n, [st |-> d.st, es |-> d.es])]
      [] key.t = "Block"  ->
             [fs EXCEPT !.blocks = Put(@, key.h, [st |-> d.st, c |-> d.c, nok |-> d.nok, sok |-> d.sok])]
      [] key.t = "Other"  -> [fs EXCEPT !.extra = @ \cup {key.s}]
      [] OTHER            -> fs

RemoveFileAt(fs, key) ==
    CASE key.t = "Header" -> [fs EXCEPT !.hdr = "absent"]
      [] key.t = "Lock"   -> [fs EXCEPT !.lock = FALSE]
      [] key.t = "Head" /\ key.b \in Bands(fs) -> [fs EXCEPT !.bands[key.b].head = "absent"]
      [] key.t = "Tail" /\ key.b \in Bands(fs) ->
             [fs EXCEPT !.bands[key.b].tail = "absent", !.bands[key.b].tc = -1]
      [] key.t = "Hunk" /\ key.b \in Bands(fs) ->
             [fs EXCEPT !.bands[key.b].hunks = Del(@, key.n)]
      [] key.t = "Block"  -> [fs EXCEPT !.blocks = Del(@, key.h)]
      [] key.t = "Other"  -> [fs EXCEPT !.extra = @ \ {key.s}]
      [] OTHER            -> fs

MkDirAt(fs, key) ==
    IF key.t = "BandDir" /\ key.b \notin Bands(fs)
    THEN [fs EXCEPT !.bands = Put(@, key.b, NewBand)]
    ELSE fs

RemoveDirAllAt(fs, key) ==
    CASE key.t = "BandDir"  -> [fs EXCEPT !.bands = Del(@, key.b)]
      [] key.t = "IndexDir" /\ key.b \in Bands(fs) -> [fs EXCEPT !.bands[key.b].hunks = <<>>]
      [] key.t = "BlockRoot" -> [fs EXCEPT !.blocks = <<>>]
      [] OTHER -> fs

(***************************************************************************)
(* The contract of a write (src/transport.rs WriteMode): CreateNew must    *)
(* refuse an existing file.  A zero-length leftover may be completed.      *)
(* Returns the set of results the contract admits in this state.           *)
(***************************************************************************)
WriteAdmitsIn(st, mode) ==
    IF st = "nodir" THEN {"NotFound"}
    ELSE IF mode = "new" /\ st \in {"garbage", "ok"} THEN {"AlreadyExists"}
    ELSE IF mode = "new" /\ st = "empty" THEN {"ok", "AlreadyExists"}
    ELSE {"ok"}

WriteAdmits(fs, key, mode) == WriteAdmitsIn(StateOf(fs, key), mode)

(***************************************************************************)
(* One storage verb with its observed result.  A verb that returned an     *)
(* error has no effect; `inj = "crash_empty"` is a write killed after the  *)
(* file was created and before its content was written.                    *)
(***************************************************************************)
ApplyVerb(fs, verb, key, d, res, inj) ==
    IF inj = "crash_empty"
    THEN IF verb = "write" /\ StateOf(fs, key) = "absent" THEN SetFile(fs, key, EmptyPayload) ELSE fs
    ELSE IF res # "ok" THEN fs
    ELSE CASE verb = "write"          -> SetFile(fs, key, d)
           [] verb = "create_dir"     -> MkDirAt(fs, key)
           [] verb = "remove_file"    -> RemoveFileAt(fs, key)
           [] verb = "remove_dir_all" -> RemoveDirAllAt(fs, key)
           [] OTHER                   -> fs

IsMutating(verb) == verb \in {"write", "create_dir", "remove_file", "remove_dir_all"}
=============================================================================
