------------------------------ MODULE TraceProto ------------------------------
(***************************************************************************)
(* Protocol conformance: the sequence of archive mutations of every real   *)
(* sequential backup and delete/gc must be the sequence the reference      *)
(* programs of Conserve.tla produce from the same archive, source tree and *)
(* settings -- the same chunking, combining, grouping into hunks, order of *)
(* writes and deletions.  This is what lets the exhaustive results for     *)
(* Conserve.tla (every kill point, every failing verb, every bounded       *)
(* history) transfer to the code.                                          *)
(*                                                                         *)
(* The model is stepped with Conserve's own actions.  Steps that do not    *)
(* change the archive are taken silently; a step that changes it must      *)
(* match the next logged mutating verb (same key, same decoded payload).   *)
(* A mismatch is recorded as *drift* (not as a property violation: see     *)
(* DESIGN.md section 6) and the rest of that call is skipped.              *)
(* Calls with injected faults are skipped; a killed call is checked up to  *)
(* the kill (its mutations must be a prefix of the reference program's).   *)
(***************************************************************************)
EXTENDS Conserve, Json, IOUtils

Rec == ndJsonDeserialize(IOEnv.TRACE)

VARIABLES l,        \* position in Rec
          scen,     \* current scenario id
          saved,    \* stack of saved [fs, src] (sweeps fork the state)
          follow,   \* "" | "bk" | "gc": the actor whose call is being followed
          drift,    \* collected drift records
          nchecked, \* number of calls followed to their end without drift
          nfaults   \* number of injected write failures the model took along

pvars == <<l, scen, saved, follow, drift, nchecked, nfaults>>
allvars == <<vars, pvars>>

\* name of a block: looked up among the names the trace itself shows for that content
Names == { <<Rec[i].dec.c, Rec[i].key.h>> : i \in {j \in 1..Len(Rec) : Rec[j].ev = "op" /\ Rec[j].verb = "write" /\ Rec[j].key.t = "Block"
                                                         /\ Rec[j].dec.st = "ok"} }
HashT(c) == IF \E x \in Names : x[1] = c THEN (CHOOSE x \in Names : x[1] = c)[2] ELSE "unnamed:" \o ToString(c)

FsOfJson(j) ==
    [hdr   |-> j.hdr, lock  |-> j.lock,
     bands |-> [b \in {x.id : x \in SeqRange(j.bands)} |->
                  LET x == CHOOSE y \in SeqRange(j.bands) : y.id = b IN
                  [head |-> x.head, tail |-> x.tail, tc |-> x.tc,
                   hunks |-> [n \in {h.n : h \in SeqRange(x.hunks)} |->
                                LET h == CHOOSE y \in SeqRange(x.hunks) : y.n = n IN [st |-> h.st, es |-> h.es]]]],
     blocks |-> [h \in {x.h : x \in SeqRange(j.blocks)} |->
                  LET x == CHOOSE y \in SeqRange(j.blocks) : y.h = h IN [st |-> x.st, c |-> x.c, nok |-> x.nok, sok |-> x.sok]],
     extra |-> SeqRange(j.extra)]

\* mutations of format keys: what the reference program must reproduce
Relevant(r) ==
    /\ r.ev = "op" /\ r.res = "ok" /\ r.inj = ""
    /\ \/ r.verb = "write" /\ r.key.t \in {"Head", "Tail", "Hunk", "Block", "Lock"}
       \/ r.verb = "create_dir" /\ r.key.t = "BandDir"
       \/ r.verb = "remove_dir_all" /\ r.key.t = "BandDir"
       \/ r.verb = "remove_file" /\ r.key.t \in {"Block", "Lock"}

RealNext(r) == ApplyVerb(fs, r.verb, r.key, r.dec, r.res, r.inj)

\* the model is at a step that changes the archive (or has nothing more to do)
BkAtWrite ==
    \/ bk.pc \in {"MkBand", "WriteHead", "Tail", "Done", "Idle"}
    \/ bk.pc = "Chunk" /\ bk.buf2 # <<>> /\ Hash(Take(bk.buf2, bk.o.M)) \notin bk.know
    \/ bk.pc = "FlushC" /\ bk.queue # <<>> /\ Hash(bk.buf) \notin bk.know
    \/ bk.pc = "WriteHunk" /\ (bk.pending \o bk.finished) # <<>>
GcAtWrite ==
    \/ gc.pc \in {"BreakLock", "WriteLock", "Release", "Done", "Idle"}
    \/ gc.pc = "DeleteBands" /\ gc.todel # {}
    \/ gc.pc = "DeleteBlocks" /\ gc.unref # {}

ModelAtWrite == IF follow = "bk" THEN BkAtWrite ELSE IF follow = "gc" THEN GcAtWrite ELSE TRUE

D(what, detail) == {<<scen, what, l, ToString(detail)>>}

(***************************************************************************)
(* Steps.                                                                  *)
(***************************************************************************)
\* an injected failure of a write or create_dir of the followed call: the model's pending write fails too
RelevantFail(r) ==
    /\ r.ev = "op" /\ r.inj = "fail" /\ r.res # "ok"
    /\ r.verb \in {"write", "create_dir"}

\* an injected failure of a read: the model's eager reads cannot be aligned with it; stop following
ReadFail(r) ==
    /\ r.ev = "op" /\ r.inj = "fail" /\ r.res # "ok"
    /\ r.verb \notin {"write", "create_dir"}

\* a model step that leaves the archive alone, taken before looking at the next event
Silent ==
    /\ follow # "" /\ ~ModelAtWrite
    /\ (IF follow = "bk" THEN BkNext ELSE GcNext)
    /\ fs' = fs /\ cnt' = cnt
    /\ UNCHANGED pvars

\* the followed call's next write was made to fail: the model takes the failing branch of its pending write
FaultMatch ==
    /\ follow = "bk" /\ ModelAtWrite
    /\ l <= Len(Rec)
    /\ LET r == Rec[l] IN RelevantFail(r) /\ r.actor = follow
    /\ BkNext
    /\ fs' = fs /\ cnt'.faults = cnt.faults + 1
    /\ l' = l + 1
    /\ nfaults' = nfaults + 1
    /\ UNCHANGED <<scen, saved, follow, drift, nchecked>>

\* the next event is a relevant mutation by the followed actor: the model must make it too
Match ==
    /\ follow # "" /\ ModelAtWrite
    /\ l <= Len(Rec)
    /\ LET r == Rec[l] IN
       /\ Relevant(r) /\ r.actor = follow
       /\ (IF follow = "bk" THEN BkNext ELSE GcNext)
       /\ fs' = RealNext(r) /\ cnt' = cnt
    /\ l' = l + 1
    /\ UNCHANGED <<scen, saved, follow, drift, nchecked, nfaults>>

\* ... and if the model cannot, that is drift: adopt the real archive, stop following this call
Drift ==
    /\ follow # "" /\ ModelAtWrite
    /\ l <= Len(Rec)
    /\ LET r == Rec[l] IN
       /\ r.actor = follow
       /\ \/ (Relevant(r) /\ ~ENABLED Match)
          \/ (RelevantFail(r) /\ ~ENABLED FaultMatch)
       /\ fs' = RealNext(r)
       /\ drift' = drift \cup D("mutation-not-in-reference-program",
                                <<r.verb, r.key.t, r.key.b, r.key.n, IF follow = "bk" THEN bk.pc ELSE gc.pc>>)
    /\ bk' = IdleBk /\ gc' = IdleGc /\ follow' = ""
    /\ l' = l + 1
    /\ UNCHANGED <<src, snap, partial, cnt, scen, saved, nchecked, nfaults>>

\* the call returns: the model must have nothing left to write (unless the call was killed)
Return ==
    /\ follow # "" /\ ModelAtWrite
    /\ l <= Len(Rec)
    /\ LET r == Rec[l] IN
       /\ r.ev = "ret" /\ r.actor = follow
       /\ LET finished == IF follow = "bk" THEN bk.pc \in {"Done", "Idle"} ELSE gc.pc \in {"Done", "Idle"}
              sameres  == IF follow = "bk" THEN (bk.pc = "Done" => ((bk.res = "ok") = (r.res = "ok") /\ (r.res = "ok" => bk.errors = r.errors)))
                          ELSE (gc.pc = "Done" => (gc.res = "ok") = (r.res = "ok"))
          IN
          /\ drift' = drift \cup (IF r.crashed \/ finished THEN {} ELSE D("reference-program-has-more-to-write", IF follow = "bk" THEN bk.pc ELSE gc.pc))
                            \cup (IF r.crashed \/ sameres THEN {} ELSE D("result-differs", r.res))
          /\ nchecked' = IF (r.crashed \/ (finished /\ sameres)) THEN nchecked + 1 ELSE nchecked
    /\ bk' = IdleBk /\ gc' = IdleGc /\ follow' = ""
    /\ l' = l + 1
    /\ UNCHANGED <<fs, src, snap, partial, cnt, scen, saved, nfaults>>

\* any other event while following: mutations by others are applied, the rest is skipped
Other ==
    /\ ModelAtWrite
    /\ l <= Len(Rec)
    /\ LET r == Rec[l] IN
       /\ ~(follow # "" /\ r.ev \in {"op", "ret"} /\ r.actor = follow /\ (Relevant(r) \/ RelevantFail(r) \/ r.ev = "ret"))
       /\ CASE r.ev = "scenario" ->
                 /\ fs' = EmptyFs /\ src' = <<>> /\ bk' = IdleBk /\ gc' = IdleGc /\ snap' = <<>> /\ partial' = {}
                 /\ cnt' = [backups |-> 0, deletes |-> 0, faults |-> 0, torn |-> {}]
                 /\ scen' = r.id /\ saved' = <<>> /\ follow' = "" /\ UNCHANGED <<drift, nchecked, nfaults>>
            [] r.ev = "src" ->
                 /\ src' = TreeOfNodes(r.tree) /\ UNCHANGED <<fs, bk, gc, snap, partial, cnt, scen, saved, follow, drift, nchecked, nfaults>>
            \* (a backup with exclusions is the reference program run on the tree without the excluded
            \* entries: r.match lists the paths a pattern matches, a fact measured with the glob library)
            \* (r.follow is false in "big" scenarios, whose contents are logged as digests)
            [] r.ev = "call" /\ r.fn = "backup" /\ ~r.own_tree /\ follow = "" /\ r.owner /\ r.follow ->
                 /\ bk' = [pc |-> "CheckLock", o |-> [H |-> r.H, M |-> r.M, S |-> r.S], band |-> -1, basis |-> <<>>, know |-> {},
                           pending |-> <<>>, finished |-> <<>>, buf |-> <<>>, queue |-> <<>>,
                           hunkNo |-> 0, todo |-> SortPaths(DOMAIN TreeSel(src, Root, SeqRange(r.match))), cur |-> <<>>, addrs |-> <<>>, buf2 |-> <<>>,
                           ret |-> "", errors |-> 0, res |-> "", faulty |-> FALSE, nblk |-> 0, want |-> TreeSel(src, Root, SeqRange(r.match))]
                 /\ follow' = "bk"
                 /\ UNCHANGED <<fs, src, gc, snap, partial, cnt, scen, saved, drift, nchecked, nfaults>>
            [] r.ev = "call" /\ r.fn = "delete" /\ ~r.injected /\ follow = "" /\ SeqRange(r.bands) \subseteq Bands(fs) ->
                 /\ gc' = [pc |-> IF r.brk /\ fs.lock THEN "BreakLock" ELSE "ListBands", del |-> SeqRange(r.bands), dry |-> r.dry, last |-> -1, keep |-> {}, toread |-> {},
                           referenced |-> {}, unref |-> {}, todel |-> {}, res |-> "", fs0 |-> fs, faulty |-> FALSE]
                 /\ follow' = "gc"
                 /\ UNCHANGED <<fs, src, bk, snap, partial, cnt, scen, saved, drift, nchecked, nfaults>>
            [] r.ev = "op" /\ follow # "" /\ r.actor = follow /\ ReadFail(r) ->
                 \* a read of the followed call was made to fail: not followed further (no drift)
                 /\ bk' = IdleBk /\ gc' = IdleGc /\ follow' = ""
                 /\ UNCHANGED <<fs, src, snap, partial, cnt, scen, saved, drift, nchecked, nfaults>>
            [] r.ev = "op" ->
                 /\ fs' = RealNext(r) /\ UNCHANGED <<src, bk, gc, snap, partial, cnt, scen, saved, follow, drift, nchecked, nfaults>>
            [] r.ev = "fsck" ->
                 /\ fs' = FsOfJson(r.fs) /\ UNCHANGED <<src, bk, gc, snap, partial, cnt, scen, saved, follow, drift, nchecked, nfaults>>
            [] r.ev = "save" ->
                 /\ saved' = Append(saved, [fs |-> fs, src |-> src]) /\ UNCHANGED <<vars, scen, follow, drift, nchecked, nfaults>>
            [] r.ev = "reset" ->
                 /\ fs' = saved[Len(saved)].fs /\ src' = saved[Len(saved)].src /\ bk' = IdleBk /\ gc' = IdleGc /\ follow' = ""
                 /\ UNCHANGED <<snap, partial, cnt, scen, saved, drift, nchecked, nfaults>>
            [] r.ev = "unsave" ->
                 /\ saved' = SubSeq(saved, 1, Len(saved) - 1) /\ UNCHANGED <<vars, scen, follow, drift, nchecked, nfaults>>
            [] r.ev = "new_archive" ->
                 /\ fs' = EmptyFs /\ bk' = IdleBk /\ gc' = IdleGc /\ follow' = ""
                 /\ UNCHANGED <<src, snap, partial, cnt, scen, saved, drift, nchecked, nfaults>>
            [] OTHER -> UNCHANGED <<vars, scen, saved, follow, drift, nchecked, nfaults>>
    /\ l' = l + 1

PInit ==
    /\ l = 1 /\ scen = "" /\ saved = <<>> /\ follow = "" /\ drift = {} /\ nchecked = 0 /\ nfaults = 0
    /\ fs = EmptyFs /\ src = <<>> /\ bk = IdleBk /\ gc = IdleGc /\ snap = <<>> /\ partial = {}
    /\ cnt = [backups |-> 0, deletes |-> 0, faults |-> 0, torn |-> {}]

PNext == Silent \/ Match \/ FaultMatch \/ Drift \/ Return \/ Other

PSpec == PInit /\ [][PNext]_allvars

RECURSIVE SetToSeq(_)
SetToSeq(S) == IF S = {} THEN <<>> ELSE LET x == CHOOSE y \in S : TRUE IN <<x>> \o SetToSeq(S \ {x})

Report == l > Len(Rec) => JsonSerialize(IOEnv.VIOLOUT, [drift |-> SetToSeq(drift), nchecked |-> nchecked, nfaults |-> nfaults])

\* every event was consumed
Consumed == TLCGet("level") >= Len(Rec)
=============================================================================
