SPECIFICATION Spec
CONSTANTS
  Blocks = {"x", "y", "z", "w", "v"}
  InitBands <- MCInitBands
  InitBlocks <- MCInitBlocks
  Need <- MCNeed3
  Backups = {"bk1", "bk2"}
  Gcs = {"gc"}
  GcDeleteChoices <- MCChoicesSmall
  BkRechecksLock = TRUE
  GcRechecksBands = TRUE
  CreateNewEnforced = TRUE
  GcLoserRemovesLock = FALSE
INVARIANTS NoLoss
CHECK_DEADLOCK FALSE
