SPECIFICATION Spec
CONSTANTS
  FileOwnerBeforeMode = TRUE
  SymlinkChownFollows = FALSE
  SymlinkTimesFollow = FALSE
INVARIANTS Inv_MetadataExact Inv_OutsideUntouched
CHECK_DEADLOCK FALSE
