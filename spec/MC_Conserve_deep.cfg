SPECIFICATION Spec
CONSTANTS
  TreeSet <- Trees2
  OptSet <- OptsA
  MaxBackups = 3
  MaxDeletes = 1
  MaxFaults = 0
  AllowCrash = TRUE
  AllowEmptyLeftover = TRUE
  AllowTornRmdir = FALSE
  CombinerClearsQueueOnFailedFlush = TRUE
  Hash <- HashId
  ReaderReportsHunks = TRUE
  BkRechecksLock = TRUE
  AllowConcurrent = FALSE
  GcStopsOnUnreadableHunk = TRUE
  GcBandsBeforeBlocks = TRUE
    TailCarriesCount = TRUE
  GcRefusesHeadlessNewest = TRUE
INVARIANTS Inv_Format Inv_NoDangling Inv_SnapRestores Inv_RecordedBytes Inv_CompleteSuccess Inv_SkippedReported Inv_UnchangedStoresNothing Inv_GcExact
PROPERTIES Prop_WriteOnce
CHECK_DEADLOCK FALSE
