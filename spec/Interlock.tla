------------------------------ MODULE Interlock ------------------------------
(***************************************************************************)
(* The interlock between a backup and a garbage collection / delete        *)
(* running on the same archive (src/backup.rs backup(), src/gc_lock.rs,    *)
(* src/archive.rs delete_bands()), one action per storage verb that        *)
(* touches shared state.  Both sides are check-then-act; TLC explores      *)
(* every interleaving (C06), and two racing backups (C07).                 *)
(*                                                                         *)
(* Abstract archive: `lock` (GC_LOCK present), `bands` (band id ->         *)
(* [head, tail, refs] where refs = blocks named by its hunks), `blocks`    *)
(* (present block ids).  A block id stands for a content: the same content *)
(* always gets the same id.                                                *)
(*                                                                         *)
(* Protocol choices are constants, set to what /repo does:                 *)
(*   BkRechecksLock  backup looks at GC_LOCK again after writing BANDHEAD  *)
(*                   and before listing the block directory                *)
(*   GcRechecksBands gc re-lists the bands before deleting anything        *)
(*   CreateNewEnforced  a create-new write of an existing file fails       *)
(*   GcLoserRemovesLock a gc that loses the race for GC_LOCK removes it    *)
(***************************************************************************)
EXTENDS Integers, FiniteSets, Sequences, TLC

CONSTANTS Blocks,          \* universe of block ids
          InitBands,       \* initial bands: function id -> [head, tail, refs]
          InitBlocks,      \* initially present blocks
          Need,            \* function backup actor -> sequence of block ids its source needs, in order
          Backups,         \* set of backup actor names
          Gcs,             \* set of gc actor names
          GcDeleteChoices, \* set of sets of band ids: what a gc may be asked to delete
          BkRechecksLock, GcRechecksBands, CreateNewEnforced,
          GcLoserRemovesLock  \* a gc whose create-new write of GC_LOCK fails removes the file ("tidy up"); FALSE in /repo

VARIABLES lock, bands, blocks, bk, gc

vars == <<lock, bands, blocks, bk, gc>>

Put(f, k, v) == [x \in (DOMAIN f) \cup {k} |-> IF x = k THEN v ELSE f[x]]
Del(f, S)    == [x \in (DOMAIN f) \ S |-> f[x]]
Max(S)       == CHOOSE x \in S : \A y \in S : y <= x
LastId(bs)   == IF DOMAIN bs = {} THEN -1 ELSE Max(DOMAIN bs)

BkInit == [pc |-> "CheckLock", seen |-> -1, band |-> -1, know |-> {}, i |-> 1, res |-> "running", refs |-> {}]
GcInit == [pc |-> "ListBands", del |-> {}, last |-> -1, keep |-> {}, toread |-> {}, referenced |-> {}, unref |-> {},
           todel |-> {}, res |-> "running", holds |-> FALSE]

Init ==
    /\ lock = FALSE
    /\ bands = InitBands
    /\ blocks = InitBlocks
    /\ bk = [a \in Backups |-> BkInit]
    /\ gc \in [Gcs -> {[GcInit EXCEPT !.del = d] : d \in GcDeleteChoices}]

(***************************************************************************)
(* Backup.                                                                 *)
(***************************************************************************)
BkSet(a, r) == bk' = [bk EXCEPT ![a] = r]

\* metadata GC_LOCK
BkCheckLock(a) ==
    /\ bk[a].pc = "CheckLock"
    /\ IF lock THEN BkSet(a, [bk[a] EXCEPT !.pc = "Done", !.res = "refused"])
               ELSE BkSet(a, [bk[a] EXCEPT !.pc = "ListBands"])
    /\ UNCHANGED <<lock, bands, blocks, gc>>

\* list_dir "" (last_band_id, twice in the code: basis and Band::create; the second decides the id)
BkListBands(a) ==
    /\ bk[a].pc = "ListBands"
    /\ BkSet(a, [bk[a] EXCEPT !.pc = "CreateBand", !.seen = LastId(bands)])
    /\ UNCHANGED <<lock, bands, blocks, gc>>

\* create_dir bNNNN (an existing directory is not an error)
BkCreateBand(a) ==
    /\ bk[a].pc = "CreateBand"
    /\ LET id == bk[a].seen + 1 IN
       /\ bands' = IF id \in DOMAIN bands THEN bands
                   ELSE Put(bands, id, [head |-> FALSE, tail |-> FALSE, refs |-> {}])
       /\ BkSet(a, [bk[a] EXCEPT !.pc = "WriteHead", !.band = id])
    /\ UNCHANGED <<lock, blocks, gc>>

\* write BANDHEAD (create-new)
BkWriteHead(a) ==
    /\ bk[a].pc = "WriteHead"
    /\ LET id == bk[a].band IN
       IF id \notin DOMAIN bands
       THEN /\ BkSet(a, [bk[a] EXCEPT !.pc = "Done", !.res = "failed"]) /\ UNCHANGED bands
       ELSE IF bands[id].head /\ CreateNewEnforced
       THEN /\ BkSet(a, [bk[a] EXCEPT !.pc = "Done", !.res = "failed"]) /\ UNCHANGED bands
       ELSE /\ bands' = [bands EXCEPT ![id].head = TRUE]
            /\ BkSet(a, [bk[a] EXCEPT !.pc = IF BkRechecksLock THEN "RecheckLock" ELSE "ListBlocks"])
    /\ UNCHANGED <<lock, blocks, gc>>

BkRecheckLock(a) ==
    /\ bk[a].pc = "RecheckLock"
    /\ IF lock THEN BkSet(a, [bk[a] EXCEPT !.pc = "Done", !.res = "refused"])
               ELSE BkSet(a, [bk[a] EXCEPT !.pc = "ListBlocks"])
    /\ UNCHANGED <<lock, bands, blocks, gc>>

\* list_dir d, d/xxx : the in-memory set of blocks believed present
BkListBlocks(a) ==
    /\ bk[a].pc = "ListBlocks"
    /\ BkSet(a, [bk[a] EXCEPT !.pc = "Store", !.know = blocks])
    /\ UNCHANGED <<lock, bands, blocks, gc>>

\* the next content: write the block unless believed present
BkStore(a) ==
    /\ bk[a].pc = "Store"
    /\ bk[a].i <= Len(Need[a])
    /\ LET c == Need[a][bk[a].i] IN
       /\ blocks' = IF c \in bk[a].know THEN blocks ELSE blocks \cup {c}
       /\ BkSet(a, [bk[a] EXCEPT !.pc = "WriteHunk", !.know = @ \cup {c}])
    /\ UNCHANGED <<lock, bands, gc>>

\* write the hunk naming that block (create-new; hunk numbers are the actor's own counter)
BkWriteHunk(a) ==
    /\ bk[a].pc = "WriteHunk"
    /\ LET id == bk[a].band
           c  == Need[a][bk[a].i] IN
       IF id \notin DOMAIN bands
       THEN /\ BkSet(a, [bk[a] EXCEPT !.pc = "Done", !.res = "failed"]) /\ UNCHANGED bands
       ELSE /\ bands' = [bands EXCEPT ![id].refs = @ \cup {c}]
            /\ BkSet(a, [bk[a] EXCEPT !.pc = "Store", !.i = @ + 1, !.refs = @ \cup {c}])
    /\ UNCHANGED <<lock, blocks, gc>>

BkWriteTail(a) ==
    /\ bk[a].pc = "Store"
    /\ bk[a].i > Len(Need[a])
    /\ LET id == bk[a].band IN
       IF id \notin DOMAIN bands
       THEN /\ BkSet(a, [bk[a] EXCEPT !.pc = "Done", !.res = "failed"]) /\ UNCHANGED bands
       ELSE /\ bands' = [bands EXCEPT ![id].tail = TRUE]
            /\ BkSet(a, [bk[a] EXCEPT !.pc = "Done", !.res = "ok"])
    /\ UNCHANGED <<lock, blocks, gc>>

BkNext(a) == \/ BkCheckLock(a) \/ BkListBands(a) \/ BkCreateBand(a) \/ BkWriteHead(a) \/ BkRecheckLock(a)
             \/ BkListBlocks(a) \/ BkStore(a) \/ BkWriteHunk(a) \/ BkWriteTail(a)

(***************************************************************************)
(* Gc / delete.                                                            *)
(***************************************************************************)
GcSet(a, r) == gc' = [gc EXCEPT ![a] = r]

\* list_dir "" ; remember the newest band
GcListBands(a) ==
    /\ gc[a].pc = "ListBands"
    /\ GcSet(a, [gc[a] EXCEPT !.pc = "CheckTail", !.last = LastId(bands)])
    /\ UNCHANGED <<lock, bands, blocks, bk>>

\* metadata bLAST/BANDTAIL : refuse when the newest band is incomplete
GcCheckTail(a) ==
    /\ gc[a].pc = "CheckTail"
    /\ LET n == gc[a].last IN
       IF n # -1 /\ ~(n \in DOMAIN bands /\ bands[n].tail)
       THEN GcSet(a, [gc[a] EXCEPT !.pc = "Done", !.res = "refused"])
       ELSE GcSet(a, [gc[a] EXCEPT !.pc = "CheckLock"])
    /\ UNCHANGED <<lock, bands, blocks, bk>>

GcCheckLock(a) ==
    /\ gc[a].pc = "CheckLock"
    /\ IF lock THEN GcSet(a, [gc[a] EXCEPT !.pc = "Done", !.res = "refused"])
               ELSE GcSet(a, [gc[a] EXCEPT !.pc = "WriteLock"])
    /\ UNCHANGED <<lock, bands, blocks, bk>>

GcWriteLock(a) ==
    /\ gc[a].pc = "WriteLock"
    /\ IF lock /\ CreateNewEnforced
       THEN /\ GcSet(a, [gc[a] EXCEPT !.pc = "Done", !.res = "refused"])
            /\ lock' = IF GcLoserRemovesLock THEN FALSE ELSE lock
       ELSE /\ lock' = TRUE /\ GcSet(a, [gc[a] EXCEPT !.pc = "ListKeep", !.holds = TRUE])
    /\ UNCHANGED <<bands, blocks, bk>>

\* list_dir "" : keep = bands - delete
GcListKeep(a) ==
    /\ gc[a].pc = "ListKeep"
    /\ LET k == (DOMAIN bands) \ gc[a].del IN
       GcSet(a, [gc[a] EXCEPT !.pc = "ReadRefs", !.keep = k, !.toread = k])
    /\ UNCHANGED <<lock, bands, blocks, bk>>

\* read the index of one kept band (what it names at that moment)
GcReadRefs(a) ==
    /\ gc[a].pc = "ReadRefs"
    /\ IF gc[a].toread = {}
       THEN GcSet(a, [gc[a] EXCEPT !.pc = "ListBlocks"])
       ELSE \E b \in gc[a].toread :
              GcSet(a, [gc[a] EXCEPT !.toread = @ \ {b},
                                     !.referenced = @ \cup (IF b \in DOMAIN bands THEN bands[b].refs ELSE {})])
    /\ UNCHANGED <<lock, bands, blocks, bk>>

GcListBlocks(a) ==
    /\ gc[a].pc = "ListBlocks"
    /\ GcSet(a, [gc[a] EXCEPT !.pc = "Recheck", !.unref = blocks \ gc[a].referenced])
    /\ UNCHANGED <<lock, bands, blocks, bk>>

\* list_dir "" again: abort if a new band appeared
GcRecheck(a) ==
    /\ gc[a].pc = "Recheck"
    /\ IF GcRechecksBands /\ LastId(bands) # gc[a].last
       THEN GcSet(a, [gc[a] EXCEPT !.pc = "Release", !.res = "aborted"])
       ELSE GcSet(a, [gc[a] EXCEPT !.pc = "DeleteBands", !.todel = gc[a].del \cap DOMAIN bands])
    /\ UNCHANGED <<lock, bands, blocks, bk>>

GcDeleteBand(a) ==
    /\ gc[a].pc = "DeleteBands"
    /\ IF gc[a].todel = {}
       THEN /\ GcSet(a, [gc[a] EXCEPT !.pc = "DeleteBlocks"]) /\ UNCHANGED bands
       ELSE \E b \in gc[a].todel :
              /\ bands' = Del(bands, {b})
              /\ GcSet(a, [gc[a] EXCEPT !.todel = @ \ {b}])
    /\ UNCHANGED <<lock, blocks, bk>>

GcDeleteBlock(a) ==
    /\ gc[a].pc = "DeleteBlocks"
    /\ IF gc[a].unref = {}
       THEN /\ GcSet(a, [gc[a] EXCEPT !.pc = "Release", !.res = "ok"]) /\ UNCHANGED blocks
       ELSE \E c \in gc[a].unref :
              /\ blocks' = blocks \ {c}
              /\ GcSet(a, [gc[a] EXCEPT !.unref = @ \ {c}])
    /\ UNCHANGED <<lock, bands, bk>>

GcRelease(a) ==
    /\ gc[a].pc = "Release"
    /\ lock' = FALSE
    /\ GcSet(a, [gc[a] EXCEPT !.pc = "Done", !.holds = FALSE])
    /\ UNCHANGED <<bands, blocks, bk>>

GcNext(a) == \/ GcListBands(a) \/ GcCheckTail(a) \/ GcCheckLock(a) \/ GcWriteLock(a) \/ GcListKeep(a)
             \/ GcReadRefs(a) \/ GcListBlocks(a) \/ GcRecheck(a) \/ GcDeleteBand(a) \/ GcDeleteBlock(a)
             \/ GcRelease(a)

Next == (\E a \in Backups : BkNext(a)) \/ (\E a \in Gcs : GcNext(a))

Spec == Init /\ [][Next]_vars

(***************************************************************************)
(* Properties.                                                             *)
(***************************************************************************)
Quiescent == (\A a \in Backups : bk[a].pc = "Done") /\ (\A a \in Gcs : gc[a].pc = "Done")

\* C06: once both have finished, no complete version names a block that is gone
NoLoss == Quiescent => \A b \in DOMAIN bands : (bands[b].head /\ bands[b].tail) => bands[b].refs \subseteq blocks

\* stronger, every moment: a complete version never dangles
NeverDangling == \A b \in DOMAIN bands : (bands[b].head /\ bands[b].tail) => bands[b].refs \subseteq blocks

\* C07 (race of two backups): a complete band holds exactly one backup's content, and at most one
\* backup reports success for a band
OneWinner == \A a1, a2 \in Backups :
                a1 # a2 /\ bk[a1].res = "ok" /\ bk[a2].res = "ok" => bk[a1].band # bk[a2].band
NoMixing == \A a \in Backups :
                (bk[a].res = "ok" /\ bk[a].band \in DOMAIN bands /\ bands[bk[a].band].tail)
                    => bands[bk[a].band].refs = bk[a].refs

\* C07 (two gcs): the lock file of a gc that is still working is never removed by anybody else
HoldsImpliesLock == \A a \in Gcs : gc[a].holds => lock
\* at most one gc works at a time
OneCollector == \A a1, a2 \in Gcs : gc[a1].holds /\ gc[a2].holds => a1 = a2

\* the lock is never left behind
LockReleased == Quiescent => ~lock
=============================================================================
