------------------------------- MODULE Apath -------------------------------
(***************************************************************************)
(* Archive paths ("apaths") of conserve, stated independently of the code  *)
(* from doc/format.md.                                                     *)
(*                                                                         *)
(* A path is a sequence of components, a component is a non-empty sequence *)
(* of byte values.  The root "/" is the empty sequence.  "/a/é" is         *)
(* << <<97>>, <<195,169>> >>.                                              *)
(*                                                                         *)
(* Order (doc/format.md "Apaths"): compare the directory part component by *)
(* component, each component byte-wise, a proper prefix first; when the    *)
(* directory parts are equal compare the final names byte-wise.  Hence the *)
(* direct children of a directory precede its grandchildren, and every     *)
(* subtree is contiguous.                                                  *)
(***************************************************************************)
EXTENDS Naturals, Sequences, FiniteSets

Root == <<>>

RECURSIVE BytesLess(_, _)
BytesLess(a, b) ==
    IF a = <<>> THEN b # <<>>
    ELSE IF b = <<>> THEN FALSE
    ELSE IF a[1] < b[1] THEN TRUE
    ELSE IF b[1] < a[1] THEN FALSE
    ELSE BytesLess(Tail(a), Tail(b))

\* lexicographic on sequences of components; a proper prefix sorts first
RECURSIVE CompsLess(_, _)
CompsLess(a, b) ==
    IF a = <<>> THEN b # <<>>
    ELSE IF b = <<>> THEN FALSE
    ELSE IF BytesLess(a[1], b[1]) THEN TRUE
    ELSE IF BytesLess(b[1], a[1]) THEN FALSE
    ELSE CompsLess(Tail(a), Tail(b))

DirPart(p) == IF p = <<>> THEN <<>> ELSE SubSeq(p, 1, Len(p) - 1)
Name(p)    == p[Len(p)]

\* The documented strict total order on paths.
Less(p, q) ==
    IF p = <<>> THEN q # <<>>
    ELSE IF q = <<>> THEN FALSE
    ELSE IF DirPart(p) = DirPart(q) THEN BytesLess(Name(p), Name(q))
    ELSE CompsLess(DirPart(p), DirPart(q))

LessEq(p, q) == p = q \/ Less(p, q)

\* a is p itself or an ancestor of p, by whole components
IsAncestorOrSelf(a, p) == Len(a) <= Len(p) /\ SubSeq(p, 1, Len(a)) = a
IsStrictAncestor(a, p) == Len(a) < Len(p) /\ SubSeq(p, 1, Len(a)) = a

\* all ancestors-or-self of p below the root
AncestorsBelowRoot(p) == { SubSeq(p, 1, i) : i \in 1..Len(p) }

(***************************************************************************)
(* Well-formedness of a component sequence: no empty component, no "." or  *)
(* "..", no NUL byte.  (The leading "/" is a property of the string form   *)
(* and is reported separately by whoever parses the string.)               *)
(***************************************************************************)
CompOK(c) == /\ c # <<>>
             /\ c # <<46>>
             /\ c # <<46, 46>>
             /\ \A i \in 1..Len(c) : c[i] # 0
ValidPath(p) == \A i \in 1..Len(p) : CompOK(p[i])

(***************************************************************************)
(* Raw strings (byte sequences) and the documented validity rule: starts   *)
(* with "/"; "/" alone is valid; otherwise the text after the first "/"    *)
(* split on "/" has only well-formed components.                           *)
(***************************************************************************)
RECURSIVE SplitOnSlash(_, _, _)
SplitOnSlash(s, i, cur) ==
    IF i > Len(s) THEN <<cur>>
    ELSE IF s[i] = 47 THEN <<cur>> \o SplitOnSlash(s, i + 1, <<>>)
    ELSE SplitOnSlash(s, i + 1, Append(cur, s[i]))

IsValidRaw(s) ==
    /\ Len(s) >= 1
    /\ s[1] = 47
    /\ \/ Len(s) = 1
       \/ LET parts == SplitOnSlash(s, 2, <<>>)
          IN  \A i \in 1..Len(parts) : CompOK(parts[i])

\* the path denoted by a valid raw string
ParseRaw(s) == IF Len(s) = 1 THEN <<>> ELSE SplitOnSlash(s, 2, <<>>)

\* the raw string of a path
RECURSIVE RawOf(_)
RawOf(p) == IF p = <<>> THEN <<47>>
            ELSE IF Len(p) = 1 THEN <<47>> \o p[1]
            ELSE RawOf(SubSeq(p, 1, Len(p) - 1)) \o <<47>> \o p[Len(p)]

(***************************************************************************)
(* Sequences of things that carry a path in field p.                       *)
(***************************************************************************)
StrictlyIncreasing(es) == \A i \in 1..(Len(es) - 1) : Less(es[i].p, es[i + 1].p)

\* insertion sort of a set of paths into a sequence under Less
RECURSIVE SortPaths(_)
SortPaths(S) ==
    IF S = {} THEN <<>>
    ELSE LET m == CHOOSE x \in S : \A y \in S : x = y \/ Less(x, y)
         IN  <<m>> \o SortPaths(S \ {m})
=============================================================================
