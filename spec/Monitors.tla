------------------------------ MODULE Monitors ------------------------------
(***************************************************************************)
(* Property monitors over the archive state and the snapshot ghost, shared *)
(* by the exhaustive model (Conserve.tla) and the trace validator          *)
(* (Trace.tla).  snap[b] is the tree version b was made from; partial is   *)
(* the set of versions written under injected storage faults.              *)
(***************************************************************************)
EXTENDS Format

\* every complete version made in this trace restores to the tree it was made from
SnapBroken(f, snap, partial) ==
    {b \in (DOMAIN snap) \ partial : Complete(f, b) /\ RestoreOf(f, b) # snap[b]}

\* every file entry recorded in a band made in this trace restores to the bytes
\* that file had in the source when the band was made
RecordedWrong(f, snap) ==
    UNION { { <<b, e.p>> : e \in {x \in SeqRange(OwnEntries(f, b)) :
                  x.k = "File" /\
                  ~( /\ x.p \in DOMAIN snap[b]
                     /\ snap[b][x.p].k = "File"
                     /\ EntryReadable(f, x)
                     /\ FileBytes(f, x) = snap[b][x.p].c )} }
            : b \in (DOMAIN snap) \cap Bands(f) }

=============================================================================
