SPECIFICATION Spec
CONSTANTS MaxNodes = 2
INVARIANTS T_MergeIsSetDiff T_MergeOrdered T_SelfUnchanged T_Callback
CHECK_DEADLOCK FALSE
