------------------------------- MODULE Reader -------------------------------
(***************************************************************************)
(* What an archive state *means*: which versions exist, what listing a     *)
(* version yields (the stitching rule), what it restores to, which blocks  *)
(* are referenced.  These are reference functions over `fs`; the           *)
(* implementation's observable results are compared with them.             *)
(*                                                                         *)
(* An index entry is                                                       *)
(*   [p path, k "File"|"Dir"|"Symlink", mt <<sec,nsec>>, mode, u, g,       *)
(*    a <<[h, s, n], ...>> addresses, t target bytes, ht has-target,       *)
(*    pv string form well-formed]                                          *)
(* A tree is a function from paths to nodes                                *)
(*   [k, c content bytes, t target bytes, mt, mode, u, g].                 *)
(***************************************************************************)
EXTENDS Storage

None == [none |-> TRUE]

HeadFile(fs, b) == b \in Bands(fs) /\ fs.bands[b].head # "absent"
HeadOK(fs, b)   == b \in Bands(fs) /\ fs.bands[b].head = "ok"
TailFile(fs, b) == b \in Bands(fs) /\ fs.bands[b].tail # "absent"
\* a version exists when its head is readable; it is complete when it also has a tail
Exists(fs, b)   == HeadOK(fs, b)
Complete(fs, b) == HeadOK(fs, b) /\ TailFile(fs, b)

SetMax(S) == CHOOSE x \in S : \A y \in S : y <= x
SetMin(S) == CHOOSE x \in S : \A y \in S : x <= y

\* "latest complete version": the newest band that is complete
CompleteBands(fs) == {b \in Bands(fs) : Complete(fs, b)}
LatestClosed(fs)  == IF CompleteBands(fs) = {} THEN -1 ELSE SetMax(CompleteBands(fs))
LastBand(fs)      == IF Bands(fs) = {} THEN -1 ELSE SetMax(Bands(fs))

(***************************************************************************)
(* The entries a band's own index holds: its readable hunks in hunk-number *)
(* order.  An unreadable hunk contributes nothing.                         *)
(***************************************************************************)
RECURSIVE FlatFrom(_, _)
FlatFrom(hs, S) ==
    IF S = {} THEN <<>>
    ELSE LET m == SetMin(S)
         IN  (IF hs[m].st = "ok" THEN hs[m].es ELSE <<>>) \o FlatFrom(hs, S \ {m})

OwnEntries(fs, b) == IF b \in Bands(fs) THEN FlatFrom(fs.bands[b].hunks, DOMAIN fs.bands[b].hunks) ELSE <<>>

AllHunksReadable(fs, b) == \A n \in DOMAIN fs.bands[b].hunks : fs.bands[b].hunks[n].st = "ok"

(***************************************************************************)
(* The stitching rule (doc/format.md, src/index/stitch.rs module comment): *)
(* the listing of version n is n's own entries; if n has no tail it        *)
(* continues with the entries of the nearest earlier band that has a head, *)
(* after the last path taken so far, recursively; it stops at a band with  *)
(* a tail or when there is no earlier band.                                *)
(***************************************************************************)
After(es, after) ==
    IF after = None THEN es ELSE SelectSeq(es, LAMBDA e : Less(after.p, e.p))

PrevExisting(fs, n) ==
    LET S == {b \in Bands(fs) : b < n /\ HeadFile(fs, b)}
    IN  IF S = {} THEN -1 ELSE SetMax(S)

RECURSIVE StitchFrom(_, _, _)
StitchFrom(fs, n, after) ==
    LET own == IF HeadOK(fs, n) THEN After(OwnEntries(fs, n), after) ELSE <<>>
        na  == IF own = <<>> THEN after ELSE [p |-> own[Len(own)].p]
        pv  == PrevExisting(fs, n)
    IN  IF TailFile(fs, n) \/ pv = -1 THEN own
        ELSE own \o StitchFrom(fs, pv, na)

StitchOf(fs, n) == StitchFrom(fs, n, None)

\* the band each entry of the stitched listing comes from
RECURSIVE ProvFrom(_, _, _)
ProvFrom(fs, n, after) ==
    LET own == IF HeadOK(fs, n) THEN After(OwnEntries(fs, n), after) ELSE <<>>
        na  == IF own = <<>> THEN after ELSE [p |-> own[Len(own)].p]
        pv  == PrevExisting(fs, n)
        me  == [i \in 1..Len(own) |-> n]
    IN  IF TailFile(fs, n) \/ pv = -1 THEN me
        ELSE me \o ProvFrom(fs, pv, na)

(***************************************************************************)
(* Exclusion and subtree selection.  M is the set of paths that match a    *)
(* base pattern (a fact about glob matching, supplied from outside): a     *)
(* path is excluded iff it or one of its ancestors below the root matches. *)
(***************************************************************************)
Excluded(p, M) == \E q \in AncestorsBelowRoot(p) : q \in M

Listing(fs, n, S, M) ==
    SelectSeq(StitchOf(fs, n), LAMBDA e : IsAncestorOrSelf(S, e.p) /\ ~Excluded(e.p, M))

(***************************************************************************)
(* Blocks and file content.                                                *)
(***************************************************************************)
BlockOK(fs, h) == h \in BlockNames(fs) /\ fs.blocks[h].st = "ok" /\ fs.blocks[h].nok
AddrOK(fs, a)  == BlockOK(fs, a.h) /\ a.s + a.n <= Len(fs.blocks[a.h].c)
\* weaker: present and long enough (what "dangling" is about)
AddrBacked(fs, a) == /\ a.h \in BlockNames(fs)
                     /\ fs.blocks[a.h].st = "ok"
                     /\ a.s + a.n <= Len(fs.blocks[a.h].c)

RECURSIVE ConcatSlices(_, _, _)
ConcatSlices(fs, as, i) ==
    IF i > Len(as) THEN <<>>
    ELSE SubSeq(fs.blocks[as[i].h].c, as[i].s + 1, as[i].s + as[i].n) \o ConcatSlices(fs, as, i + 1)

EntryReadable(fs, e) == \A i \in 1..Len(e.a) : AddrOK(fs, e.a[i])
FileBytes(fs, e)     == ConcatSlices(fs, e.a, 1)

AllReadable(fs, es)  == \A i \in 1..Len(es) : EntryReadable(fs, es[i])

RECURSIVE SumLens(_, _)
SumLens(as, i) == IF i > Len(as) THEN 0 ELSE as[i].n + SumLens(as, i + 1)
EntrySize(e) == SumLens(e.a, 1)

Unreadable == <<-1>>

NodeOf(fs, e) ==
    [k |-> e.k,
     c |-> IF e.k = "File" THEN (IF EntryReadable(fs, e) THEN FileBytes(fs, e) ELSE Unreadable) ELSE <<>>,
     t |-> IF e.k = "Symlink" THEN e.t ELSE <<>>,
     mt |-> e.mt, mode |-> e.mode, u |-> e.u, g |-> e.g]

SeqRange(s) == {s[i] : i \in 1..Len(s)}

\* the tree a listing restores to
TreeOfEntries(fs, es) ==
    [p \in {e.p : e \in SeqRange(es)} |-> NodeOf(fs, CHOOSE e \in SeqRange(es) : e.p = p)]

RestoreOf(fs, n)          == TreeOfEntries(fs, StitchOf(fs, n))
RestoreSel(fs, n, S, M)   == TreeOfEntries(fs, Listing(fs, n, S, M))

\* a tree given as a sequence of node records with field p
TreeOfNodes(ns) ==
    [p \in {x.p : x \in SeqRange(ns)} |->
        LET x == CHOOSE y \in SeqRange(ns) : y.p = p
        IN  [k |-> x.k, c |-> x.c, t |-> x.t, mt |-> x.mt, mode |-> x.mode, u |-> x.u, g |-> x.g]]

\* where two trees differ: <<path, what>> with what = "missing" (only in A), "extra" (only in B)
\* or the set of differing fields
NodeFields == {"k", "c", "t", "mt", "mode", "u", "g"}
TreeDiff(A, B) ==
    { <<p, IF p \notin DOMAIN B THEN "missing"
           ELSE IF p \notin DOMAIN A THEN "extra"
           ELSE {f \in NodeFields : A[p][f] # B[p][f]}>> :
      p \in {q \in (DOMAIN A) \cup (DOMAIN B) : q \notin DOMAIN A \/ q \notin DOMAIN B \/ A[q] # B[q]} }

\* A listing is a consistent tree below S when every entry other than S itself has its parent in
\* the listing, as a directory.  (A stitched listing of an interrupted version can mix two trees
\* whose shapes conflict -- a path that is a file in one and a directory in the other, or children
\* whose directory was deleted; restoring those necessarily reports errors.)
ConsistentBelow(es, S) ==
    \A e \in SeqRange(es) :
        e.p = S \/ e.p = Root \/
        \E d \in SeqRange(es) : d.p = DirPart(e.p) /\ d.k = "Dir"

\* restriction of a tree to a subtree and to non-excluded paths
TreeSel(T, S, M) == [p \in {q \in DOMAIN T : IsAncestorOrSelf(S, q) /\ ~Excluded(q, M)} |-> T[p]]

(***************************************************************************)
(* References.                                                             *)
(***************************************************************************)
HashesOf(es) == UNION { {e.a[i].h : i \in 1..Len(e.a)} : e \in SeqRange(es) }
Referenced(fs, B) == UNION { HashesOf(OwnEntries(fs, b)) : b \in B \cap Bands(fs) }
\* blocks that count as present: a zero-length leftover is not a block
PresentBlocks(fs) == {h \in BlockNames(fs) : fs.blocks[h].st # "empty"}
Unreferenced(fs)  == PresentBlocks(fs) \ Referenced(fs, Bands(fs))

\* index entries (of the given bands' own hunks) whose addresses are not backed
Dangling(fs, B) ==
    UNION { { <<b, e.p>> : e \in {x \in SeqRange(OwnEntries(fs, b)) :
                                    \E i \in 1..Len(x.a) : ~AddrBacked(fs, x.a[i])} }
            : b \in B \cap Bands(fs) }

NoDangling(fs, B) == Dangling(fs, B) = {}
=============================================================================
