#!/bin/bash
# usage: verify_seed.sh <worktree> <demo test name> [extra cargo flags]
# Confirms a seeded change in its scratch worktree: demo fails with it, passes without; suite passes with it.
wt="$1"; demo="$2"; shift 2; flags="$*"
cd "$wt" || exit 2
echo "## $wt demo=$demo flags=$flags"
cargo test --offline -j 8 $flags --test "$demo" 2>&1 | grep -E "^test result|test .* (ok|FAILED)" | head -8
echo "rc_with_change=${PIPESTATUS[0]}"
git diff -- src > /tmp/verify_seed_$$.diff; git checkout -- src
cargo test --offline -j 8 $flags --test "$demo" 2>&1 | grep -E "^test result" | head -3
echo "rc_without_change=${PIPESTATUS[0]}"
git apply /tmp/verify_seed_$$.diff; rm -f /tmp/verify_seed_$$.diff
echo "## full suite with the change (excluding the demo):"
cargo test --offline -j 8 --no-fail-fast 2>&1 | grep -E "^test result|FAILED|failed" | grep -v "$demo" | head -20
