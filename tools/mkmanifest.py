#!/usr/bin/env python3
"""Regenerates /verif/MANIFEST.json from the registry in props.py."""
import json
import os
import sys

sys.path.insert(0, os.path.dirname(os.path.abspath(__file__)))
import props  # noqa: E402

VERIF = os.path.dirname(os.path.dirname(os.path.abspath(__file__)))

all_ids = [json.loads(l)["id"] for l in open(os.path.join(VERIF, "properties.jsonl"))]

checks = []
for pid in all_ids:
    if pid not in props.CHECKS:
        continue
    m = props.MANIFEST_TEXT[pid]
    checks.append({
        "property_id": pid,
        "quick_cmd": f"./check {pid} --tier quick",
        "thorough_cmd": f"./check {pid} --tier thorough",
        "evidence_file": f"/verif/evidence/{pid}.json",
        "replay_cmd_template": f"./check {pid} --replay {{path}}",
        "engine": "tla-trace",
        "level_claimed": {"category": props.CHECKS[pid]["level"], "text": m["text"], "design_ref": m["ref"]},
        "level_note": m["note"],
        "technique": props.CHECKS[pid]["note"],
    })

na = [{"property_id": pid, "reason": props.NOT_APPLICABLE.get(pid, "check not built yet in this round (work in progress, see DESIGN.md section 13)")}
      for pid in all_ids if pid not in props.CHECKS]

man = {
    "version": 1,
    "setup_cmd": "cd /verif/harness && cp /repo/Cargo.lock Cargo.lock && cargo build --offline 2>&1 | tail -3 && cd /verif/spec && for m in Apath Storage Reader Format Trace; do tla-sany $m.tla >/dev/null || exit 1; done",
    "hooks": {
        "guard": "verif_hooks",
        "enable": "cargo feature verif_hooks: the harness crate depends on conserve with default-features=false, features=[\"verif_hooks\"]; Transport::with_interceptor installs the interceptor",
        "baseline_off_cmd": "cd /repo && cargo test --workspace --no-fail-fast --offline",
        "source_commits": ["a045f05", "a8af276"],
        "add_only": True,
    },
    "engines": [
        {"name": "tla-trace", "path": "/verif/check", "serves_properties": [c["property_id"] for c in checks],
         "kind_free_text": "TLA+ specification (spec/*.tla) checked by TLC: exhaustive bounded model configs + validation of traces recorded from the real code by the Rust harness (harness/) through the verif_hooks interceptor"},
    ],
    "checks": checks,
    "notes": "Every check rebuilds the harness against /repo's working tree, runs its TLC model configs, executes generated scenarios on the real library and validates every recorded trace with TLC against spec/Trace.tla. Exit 2 = tool error. Known findings: /verif/known_findings.json.",
    "not_applicable": na,
}
json.dump(man, open(os.path.join(VERIF, "MANIFEST.json"), "w"), indent=1)
print(f"{len(checks)} checks, {len(na)} not claimed")
