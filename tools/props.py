"""Per-property checks: scenario generators, model configs, evidence."""

import json
import os
import random
import time

import cvlib
from cvlib import node, random_tree, mutate_tree, rand_opts, path_str

CHECKS = {}


def check(prop, level, technique_note):
    def deco(fn):
        CHECKS[prop] = dict(gen=fn, level=level, note=technique_note)
        return fn
    return deco


def mut(rng, t, **kw):
    """mutate_tree, never producing a same-path same-size same-mtime content change against the
    tree it started from (excluded by the statements; see cvlib.distinct_from_history)."""
    return cvlib.distinct_from_history(mutate_tree(rng, t, **kw), [t])


def sid(prop, kind, i):
    return f"{prop}-{kind}-{i:04d}"


def bk(opts, **kw):
    d = {"op": "backup"}
    d.update(opts)
    d.update(kw)
    return d


# ------------------------------------------------------------------------------------------
# C01 backup then restore reproduces the source tree exactly

def c01_value_trees(rng, tier):
    """Concrete-value generators the statement lists: every mode, mtimes around the epoch with
    and without nanoseconds, owners and groups with names, names sorting below and above '/',
    sizes around the thresholds, duplicate contents."""
    out = []
    # every mode 0..0o7777 on files and on directories, 64 per tree
    chunks = list(range(64))
    if tier == "quick":
        chunks = rng.sample(chunks, 6)
    for ch in chunks:
        t = [node("/", "Dir")]
        for i in range(64):
            m = ch * 64 + i
            t.append(node(f"/f{i:02d}", "File", b"x%d" % i, mode=m))
        out.append(("modes-file", t, {"H": 1000, "M": 1000, "S": 1000}))
    dchunks = list(range(64)) if tier != "quick" else rng.sample(list(range(64)), 3)
    for ch in dchunks:
        t = [node("/", "Dir")]
        for i in range(64):
            m = ch * 64 + i
            t.append(node(f"/d{i:02d}", "Dir", mode=m))
            t.append(node(f"/d{i:02d}/c", "File", b"c"))
        out.append(("modes-dir", t, {"H": 7, "M": 1000, "S": 1000}))
    # mtimes
    t = [node("/", "Dir", mt=(-5, 250000000))]
    for i, mt in enumerate(cvlib.MTIMES + [(-1, 999999999), (-1, 1), (-1000000000, 0), (1999999999, 999999999)]):
        t.append(node(f"/m{i:02d}", "File", b"t", mt=mt))
        t.append(node(f"/n{i:02d}", "Dir", mt=mt))
        t.append(node(f"/s{i:02d}", "Symlink", target="x", mt=mt))
    out.append(("mtimes", t, {"H": 5, "M": 1000, "S": 1000}))
    # owners and groups
    t = [node("/", "Dir", u="daemon", g="bin")]
    for i, (u, g) in enumerate(cvlib.OWNERS):
        t.append(node(f"/o{i}", "File", b"o", u=u, g=g, mode=0o640))
        t.append(node(f"/p{i}", "Dir", u=u, g=g))
        t.append(node(f"/q{i}", "Symlink", target="o0", u=u, g=g))
        t.append(node(f"/r{i}", "File", b"suid", u=u, g=g, mode=0o6755))
    out.append(("owners", t, {"H": 1000, "M": 1000, "S": 1000}))
    # names
    t = [node("/", "Dir")]
    for i, nm in enumerate(cvlib.NAMES + ["ÿ", "日本", "a b", "a\tb", "#", "!", "~", "..a", "a..", "...", "-", "é́"]):
        t.append(node("/" + nm + "_", "File", bytes([i + 1])))
        t.append(node("/" + nm, "Dir"))
        t.append(node("/" + nm + "/" + nm, "File", bytes([i + 1, 7])))
    out.append(("names", t, {"H": 4, "M": 3, "S": 1}))
    # sizes around S and M, duplicates
    for (H, M, S) in [(1, 4, 2), (2, 4, 4), (3, 3, 0), (1000, 5, 3), (2, 1, 1)]:
        t = [node("/", "Dir")]
        for sz in range(0, 3 * M + 2):
            t.append(node(f"/z{sz:02d}", "File", bytes((j % 3) + 1 for j in range(sz))))
            t.append(node(f"/y{sz:02d}", "File", bytes((j % 3) + 1 for j in range(sz))))  # duplicate content
        out.append(("sizes", t, {"H": H, "M": M, "S": S}))
    return out


@check("C01", "model_checking", "TLA+ spec + TLC (Backup reference program exhaustive) + trace validation of real backup/restore runs")
def gen_c01(tier, seed):
    rng = random.Random(seed * 1000 + 1)
    scens = []
    n = 240 if tier == "quick" else 3000
    for i in range(n):
        t = random_tree(rng, nmax=rng.choice([3, 6, 10, 14]), modes=rng.choice(["simple", "all", "nosuid"]),
                        owners=rng.random() < 0.4, sibs=rng.choice([0.0, 0.0, 0.5]))
        o = rand_opts(rng)
        scens.append({"id": sid("C01", "r", i), "props": ["C01"], "mode": "clean", "tags": ["random"],
                      "steps": [{"op": "tree", "tree": t}, bk(o), {"op": "restore", "band": 0},
                                {"op": "list", "band": 0}, {"op": "restore", "band": -1}]})
    # deep nesting (the quantifier lists nesting depth)
    for i in range(6 if tier == "quick" else 60):
        t = [node("/", "Dir")]
        path = ""
        for d in range(rng.randrange(5, 9)):
            path += "/" + rng.choice(["d", "é", "a.b", " ", "-x", "zz"])
            t.append(node(path, "Dir", mode=rng.choice([0o755, 0o700, 0o1777, 0o2750])))
            if rng.random() < 0.7:
                t.append(node(path + "/f", "File", cvlib.rand_content(rng, 9), mt=rng.choice(cvlib.MTIMES)))
            if rng.random() < 0.3:
                t.append(node(path + "/l", "Symlink", target="../f", mt=rng.choice(cvlib.MTIMES)))
        scens.append({"id": sid("C01", "deep", i), "props": ["C01"], "mode": "clean", "tags": ["deep"],
                      "steps": [{"op": "tree", "tree": t}, bk(rand_opts(rng)), {"op": "restore", "band": 0}, {"op": "list", "band": 0}]})
    # very deep nesting and very long names (255 bytes, the file-system limit)
    for i in range(3 if tier == "quick" else 20):
        t = [node("/", "Dir")]
        path = ""
        for d in range(rng.choice([25, 40, 60])):
            path += "/" + rng.choice(["d", "é", "a.b", "-", "zz"])
            t.append(node(path, "Dir"))
            if d % 7 == 3:
                t.append(node(path + "/f", "File", cvlib.rand_content(rng, 5), mt=(1600010000 + d, 0)))
        long1 = "n" * 255
        long2 = "é" * 127
        t += [node("/" + long1, "File", b"\x01\x02"), node("/" + long2, "Dir"), node("/" + long2 + "/" + long1[:200], "File", b"\x03")]
        scens.append({"id": sid("C01", "deeplong", i), "props": ["C01"], "mode": "clean", "tags": ["deep", "long-names"],
                      "steps": [{"op": "tree", "tree": t}, {"op": "walk"}, bk(rand_opts(rng)), {"op": "restore", "band": 0}, {"op": "list", "band": 0},
                                {"op": "restore", "band": 0, "subtree": path}]})
    for i, (kind, t, o) in enumerate(c01_value_trees(rng, tier)):
        scens.append({"id": sid("C01", kind, i), "props": ["C01"], "mode": "clean", "tags": [kind],
                      "steps": [{"op": "tree", "tree": t}, bk(o), {"op": "restore", "band": 0}]})
    # contents and settings of production shape (kilobytes to hundreds of kilobytes; zero runs, zero
    # tails and heads; block sizes of 4 KiB to 1 MiB): judged on the restored bytes (as digests)
    for i in range(16 if tier == "quick" else 200):
        scens.append({"id": sid("C01", "big", i), "props": ["C01"], "mode": "big", "tags": ["big"],
                      "steps": [{"op": "tree", "tree": cvlib.big_tree(rng)}, bk(rng.choice(cvlib.BIG_SETTINGS)), {"op": "restore", "band": 0},
                                {"op": "validate", "quick": False}]})
    # default settings and more than 20 MiB of small files (a combined block overruns max_block_size)
    for i in range(1 if tier == "quick" else 3):
        t = [node("/", "Dir")] + [node("/m%02d" % j, "File", cg=[["r", 999000 + 31 * j, 200 + j + i]], mt=(1600008000 + j, 0)) for j in range(rng.choice([22, 25]))]
        scens.append({"id": sid("C01", "overrun", i), "props": ["C01"], "mode": "big", "tags": ["big", "default-settings"],
                      "steps": [{"op": "tree", "tree": t}, bk({"H": 100000, "M": 20 << 20, "S": 1 << 20}), {"op": "restore", "band": 0},
                                bk({"H": 100000, "M": 20 << 20, "S": 1 << 20}), {"op": "restore", "band": 1}, {"op": "validate", "quick": False}]})
    # many entries: more files, hunks and blocks than any batch, window or cache in the program
    for i in range(2 if tier == "quick" else 12):
        nfiles = rng.choice([130, 210, 300])
        t = [node("/", "Dir"), node("/d", "Dir")]
        for j in range(nfiles):
            t.append(node(("/d" if j % 3 == 0 else "") + "/f%03d" % j, "File", bytes([(j % 250) + 1, (j // 250) + 1]) * (j % 3), mt=(1600003000 + j, j % 2)))
        scens.append({"id": sid("C01", "many", i), "props": ["C01"], "mode": "clean", "tags": ["many"],
                      "steps": [{"op": "tree", "tree": t}, bk(rng.choice([{"H": 1, "M": 1000, "S": 0}, {"H": 7, "M": 3, "S": 2}, {"H": 1000, "M": 1000, "S": 0}])),
                                {"op": "restore", "band": 0}, {"op": "validate", "quick": False}]})
    # contents beyond toy scale that are prefixes / duplicates of one another
    for i in range(10 if tier == "quick" else 120):
        t = cvlib.prefix_family_tree(rng, dirs=rng.choice([("",), ("", "d", "d.x")]))
        scens.append({"id": sid("C01", "pfx", i), "props": ["C01"], "mode": "clean", "tags": ["prefix-family"],
                      "steps": [{"op": "tree", "tree": t}, bk(rng.choice(BIG_OPTS)), {"op": "restore", "band": 0}, {"op": "list", "band": 0}]})
    return scens


def nontrivial_c01(s):
    t = s["steps"][0]["tree"]
    return len(t) >= 3 and any(n["k"] == "File" and (n["c"] or n.get("cg")) for n in t)


# ------------------------------------------------------------------------------------------
# histories (C02, C13, C14, and the archives used by C05, C09, C10)

OPTS_POOL = [{"H": 1, "M": 2, "S": 1}, {"H": 2, "M": 3, "S": 2}, {"H": 3, "M": 4, "S": 4}, {"H": 1000, "M": 5, "S": 3},
             {"H": 2, "M": 1000, "S": 1000}, {"H": 1, "M": 1, "S": 0}, {"H": 1000, "M": 1000, "S": 1000}]


def history_steps(rng, nsteps, interrupts=True, deletes=True, observe="restore_all", nmax=6, check_each=True,
                  validate=True, pre_epoch=False):
    """A random operation history: mutate / backup(opts) / interrupted backup / delete(subset) / gc,
    observing every surviving version after every step."""
    t = random_tree(rng, nmax=nmax, depth=3, pre_epoch=pre_epoch, maxlen=9, sibs=rng.choice([0.0, 0.0, 0.4]))
    shape_opts = None
    if rng.random() < 0.45:
        _, t, shape_opts = shape_tree(rng)
    steps = [{"op": "tree", "tree": t}]
    earlier = [t]
    nb = 0          # next band id (predicted; only used to pick delete sets)
    live = []       # predicted live band ids
    last_incomplete = False
    for i in range(nsteps):
        r = rng.random()
        if r < 0.55 or not live:
            if i > 0 and rng.random() < 0.8:
                t = cvlib.distinct_from_history(mutate_tree(rng, t, maxlen=9), earlier)
                earlier.append(t)
                steps.append({"op": "tree", "tree": t})
            o = rng.choice(OPTS_POOL) if (shape_opts is None or rng.random() < 0.4) else shape_opts
            if interrupts and rng.random() < 0.3:
                # a third of the interruptions hit the prologue (band directory, index directory, head)
                k = rng.choice([4, 5, 6, 7]) if rng.random() < 0.35 else rng.randrange(3, 45)
                steps.append(bk(o, crash_at=k, crash_empty=rng.random() < 0.4))
                last_incomplete = True   # (unless the run was shorter than crash_at)
            else:
                steps.append(bk(o))
                last_incomplete = False
            live.append(nb)
            nb += 1
        elif deletes and r < 0.8:
            k = rng.randrange(0, len(live) + 1)
            # (the request is a list: in any order)
            sel = rng.sample(live, k)
            if rng.random() < 0.6:
                sel.sort()
            steps.append({"op": "delete", "bands": sel, "dry": rng.random() < 0.2})
            if not last_incomplete and not steps[-1]["dry"]:
                live = [b for b in live if b not in sel]
        else:
            steps.append({"op": "delete", "bands": [], "dry": False})
        if check_each:
            if observe:
                steps.append({"op": observe})
            if validate and rng.random() < 0.5:
                steps.append({"op": "validate", "quick": rng.random() < 0.3})
    if not check_each and observe:
        steps.append({"op": observe})
    return steps


BIG_OPTS = [{"H": 1000, "M": 1000, "S": 1000}, {"H": 3, "M": 300, "S": 200}, {"H": 1000, "M": 128, "S": 100}, {"H": 2, "M": 1000, "S": 64},
            {"H": 1000, "M": 4000, "S": 1000}, {"H": 4, "M": 2000, "S": 700}]


def prefix_history(rng, nsteps=3, observe=None, deletes=True):
    """A history over trees whose file contents are duplicates / prefixes / extensions of one another
    at sizes of 40-260 bytes (cvlib.BASES), with settings that combine many of them into one block."""
    dirs = rng.choice([("",), ("", "d"), ("", "d", "d.x")])
    t = cvlib.prefix_family_tree(rng, dirs=dirs)
    o = rng.choice(BIG_OPTS)
    steps = [{"op": "tree", "tree": t}, bk(o)]
    earlier = [t]
    nb = 1
    for i in range(nsteps):
        t = [dict(n) for n in t]
        files = [n for n in t if n["k"] == "File"]
        for _ in range(rng.randrange(1, 3)):
            how = rng.choice(["rewrite", "rewrite", "delete", "add"])
            if how == "rewrite" and files:
                f = rng.choice(files)
                f["c"] = list(cvlib.prefix_content(rng))
                f["mt"] = [f["mt"][0] + 1000 + i, 0]
            elif how == "delete" and len(files) > 2:
                f = rng.choice(files)
                t.remove(f)
                files.remove(f)
            else:
                extra = cvlib.prefix_family_tree(rng, nfiles=2, dirs=dirs)
                have = {path_str(n["p"]) for n in t}
                for n in extra:
                    if n["k"] == "File" and path_str(n["p"]) not in have:
                        n["mt"] = [1600005000 + i, 0]
                        t.append(n)
                        have.add(path_str(n["p"]))
        t = cvlib.distinct_from_history(t, earlier)
        earlier.append(t)
        steps += [{"op": "tree", "tree": t}, bk(rng.choice([o, o, rng.choice(BIG_OPTS)]))]
        nb += 1
        if observe:
            steps.append({"op": observe})
        if deletes and rng.random() < 0.4 and nb >= 2:
            steps.append({"op": "delete", "bands": [rng.randrange(0, nb - 1)], "dry": False})
            if observe:
                steps.append({"op": observe})
    return steps


def big_history(rng, nsteps=2, observe=None, deletes=True):
    """A history over trees with contents of kilobytes to hundreds of kilobytes (zero runs, zero
    tails, random data) and settings of production shape; scenario mode "big"."""
    t = cvlib.big_tree(rng)
    o = rng.choice(cvlib.BIG_SETTINGS)
    steps = [{"op": "tree", "tree": t}, bk(o)]
    if observe:
        steps.append({"op": observe})
    nb = 1
    for i in range(nsteps):
        t = [dict(n) for n in t]
        files = [n for n in t if n["k"] == "File" and n.get("cg")]
        how = rng.choice(["rewrite", "grow", "shrink", "add", "remove"])
        if how == "rewrite" and files:
            f = rng.choice(files)
            f["cg"] = cvlib.big_content(rng)
            f["mt"] = [f["mt"][0] + 500 + i, 0]
        elif how == "grow" and files:
            f = rng.choice(files)
            f["cg"] = f["cg"] + [rng.choice([["z", rng.choice(cvlib.BIG_SIZES), 0], ["r", 999, i + 5]])]
            f["mt"] = [f["mt"][0] + 500 + i, 0]
        elif how == "shrink" and files:
            f = rng.choice(files)
            f["cg"] = f["cg"][:1]
            f["mt"] = [f["mt"][0] + 500 + i, 1]
        elif how == "remove" and len(files) > 1:
            t.remove(rng.choice(files))
        else:
            t.append(node("/n%d" % i, "File", cg=cvlib.big_content(rng), mt=(1600009000 + i, 0)))
        steps += [{"op": "tree", "tree": t}, bk(rng.choice([o, o, rng.choice(cvlib.BIG_SETTINGS)]))]
        nb += 1
        if observe:
            steps.append({"op": observe})
        if deletes and nb >= 2 and rng.random() < 0.4:
            steps.append({"op": "delete", "bands": [rng.randrange(0, nb - 1)], "dry": False})
            if observe:
                steps.append({"op": observe})
    return steps



def during_scenarios(prop, rng, n):
    """The source changing under the backup: files cut shorter (to nothing, too) or removed between the
    listing of their directory and their turn to be read. What the version should restore to is not
    defined then (mode "mutating"), but what is written must be well-formed: ordered, addresses
    inside their blocks, lengths adding up."""
    out = []
    for i in range(n):
        if i % 3 == 2:
            # nested: victims in a sub-directory and beside it, names that sort around one another
            names = ["a", "a.b", "d/x", "d/y", "d.x", "e"][:rng.randrange(4, 7)]
        else:
            names = ["a", "b", "c", "d", "e"][:rng.randrange(3, 6)]
        t = [node("/", "Dir")] + ([node("/d", "Dir")] if any(nm.startswith("d/") for nm in names) else [])
        t += [node("/" + nm, "File", bytes([j + 1]) * rng.randrange(3, 7), mt=(1600005000 + j, 0)) for j, nm in enumerate(names)]
        o = rng.choice([{"H": 1000, "M": 1000, "S": 1000}, {"H": 2, "M": 8, "S": 7}, {"H": 1000, "M": 4, "S": 2}, {"H": 3, "M": 1000, "S": 0},
                        {"H": 1000, "M": 12, "S": 7}])
        victims = rng.sample(names[1:], rng.randrange(1, min(3, len(names))))
        during = [{"after": "/" + names[0], "path": "/" + v, "len": rng.choice([0, 0, 1, 2, -1])} for v in victims]
        if i % 2 == 0:
            # a file found empty at its turn, among small files that are being combined into one block
            o = rng.choice([{"H": 1000, "M": 1000, "S": 1000}, {"H": 3, "M": 40, "S": 20}, {"H": 1000, "M": 12, "S": 7}])
            during[0]["len"] = 0
        steps = [{"op": "tree", "tree": t}]
        if i % 4 == 1:
            # the victims are known to an earlier version (the cut then meets the unchanged-file test)
            steps.append(bk(o))
        nb = len(steps) - 1
        steps += [bk(o, mutate_during=during), {"op": "list", "band": nb}, bk(o), {"op": "list", "band": nb + 1}]
        out.append({"id": sid(prop, "shrink", i), "props": [prop], "mode": "mutating", "tags": ["source-changes-during-backup"], "steps": steps})
    return out


@check("C02", "model_checking", "TLA+ spec + TLC (bounded histories) + trace validation of random operation histories on the real code")
def gen_c02(tier, seed):
    rng = random.Random(seed * 1000 + 2)
    n = 160 if tier == "quick" else 2500
    scens = []
    for i in range(n):
        steps = history_steps(rng, rng.choice([4, 6, 8, 12] if tier == "quick" else [6, 10, 16, 24]))
        scens.append({"id": sid("C02", "h", i), "props": ["C02"], "mode": "clean", "tags": ["history"], "steps": steps})
    # one long-lived Archive handle for the backups (a program embedding the library), while deletes / gcs
    # come through other handles (another process): contents that go away with a deleted version and
    # come back later
    for i in range(12 if tier == "quick" else 150):
        o = rng.choice([{"H": 1000, "M": 1000, "S": 0}, {"H": 1000, "M": 1000, "S": 1000}, {"H": 2, "M": 3, "S": 0}, {"H": 2, "M": 4, "S": 2}])
        ca, cb = bytes([1, 2, 3]), bytes([4, 5])
        ta = [node("/", "Dir"), node("/data", "File", ca, mt=(1600007000, 0)), node("/keep", "File", bytes([9]), mt=(1600007001, 0))]
        tb = [node("/", "Dir"), node("/data", "File", cb, mt=(1600007002, 0)), node("/keep", "File", bytes([9]), mt=(1600007001, 0))]
        tc = [node("/", "Dir"), node("/data", "File", ca, mt=(1600007003, 0)), node("/keep", "File", bytes([9]), mt=(1600007001, 0))]
        if i % 3 == 2:
            ta = mut(rng, ta, maxlen=4)
        fresh_del = i % 2 == 0
        steps = [{"op": "tree", "tree": ta}, bk(o), {"op": "tree", "tree": tb}, bk(o),
                 {"op": "delete", "bands": [0], "dry": False, "fresh": fresh_del}, {"op": "restore_all"},
                 {"op": "tree", "tree": tc}, bk(o, fresh=not fresh_del), {"op": "restore_all"}, {"op": "validate", "quick": False},
                 {"op": "delete", "bands": [], "dry": False, "fresh": True}, {"op": "tree", "tree": tb}, bk(o), {"op": "restore_all"}]
        scens.append({"id": sid("C02", "session", i), "props": ["C02"], "mode": "clean", "session": True, "tags": ["long-lived-handle"], "steps": steps})
    for i in range(8 if tier == "quick" else 100):
        scens.append({"id": sid("C02", "pfx", i), "props": ["C02"], "mode": "clean", "tags": ["prefix-family"],
                      "steps": prefix_history(rng, nsteps=rng.choice([2, 3]), observe="restore_all")})
    for i in range(8 if tier == "quick" else 100):
        scens.append({"id": sid("C02", "big", i), "props": ["C02"], "mode": "big", "tags": ["big"],
                      "steps": big_history(rng, nsteps=rng.choice([2, 3]), observe="restore_all")})
    # "asking for the latest complete version selects the newest of them": arrangements of complete,
    # interrupted, head-less and deleted versions (gaps in the ids), written in the documented format
    # by the harness, as any history of backups, kills and deletes may leave them
    universe = ["/a", "/a/x", "/b", "/c"]
    for i in range(120 if tier == "quick" else 2000):
        ids = sorted(rng.sample(range(0, 8), rng.randrange(1, 6)))
        if i % 4 == 3:
            # version numbers do not stop at four digits (b9999, b10000, ...)
            ids = sorted(set(rng.sample([0, 7, 998, 999, 1000, 9998, 9999, 10000, 10001, 99999, 100000], rng.randrange(2, 5)))
                         | ({9999, 10000} if rng.random() < 0.6 else set()))
        lay = []
        for _ in ids:
            # (a head-less directory that still has its tail -- what a delete killed inside the removal of
            # a version leaves -- is not among them: with a tail it is taken for a damaged complete
            # version and "latest" deliberately reports the error instead of silently going further back)
            st = rng.choice(["incomplete", "complete", "complete", "nohead", "incomplete"])
            sel = [j + 1 for j in range(len(universe)) if rng.random() < 0.6]
            if st == "incomplete":
                sel = sel[:rng.randrange(0, len(sel) + 1)]
            lay.append({"st": st, "hunks": [sel[k:k + 2] for k in range(0, len(sel), 2)] if st != "nohead" else [], "off": 0})
        base = c08_scenario(sid("C02", "sel", i), lay, universe, ids, ["selection"])
        steps = [base["steps"][0], {"op": "versions"}, {"op": "restore", "band": -1}]
        for b in ids[-2:]:
            steps.append({"op": "restore", "band": b})
        scens.append({"id": sid("C02", "sel", i), "props": ["C02"], "mode": "clean", "no_create": True, "tags": ["selection"], "steps": steps})
    return scens


@check("C13", "model_checking", "TLA+ spec (Format.tla = doc/format.md as a predicate) evaluated by TLC in every state of real traces decoded by an independent reader")
def gen_c13(tier, seed):
    rng = random.Random(seed * 1000 + 13)
    n = 140 if tier == "quick" else 2000
    scens = []
    for i in range(n):
        steps = history_steps(rng, rng.choice([3, 5, 8]), observe=None, validate=False, nmax=rng.choice([4, 8, 14]), pre_epoch=True)
        scens.append({"id": sid("C13", "h", i), "props": ["C13"], "mode": "clean", "tags": ["history"], "steps": steps})
    # "after any sequence of operations": also operations that met storage faults
    for i in range(20 if tier == "quick" else 300):
        o = rng.choice(C04_OPTS)
        t1 = with_dups(rng, random_tree(rng, nmax=rng.choice([4, 7]), pre_epoch=False, maxlen=6, symlinks=False, depth=2))
        steps = [{"op": "tree", "tree": t1}, bk(o, fail_p=rng.choice([0.05, 0.12]), fail_seed=seed * 31 + i, fail_verbs=["write", "create_dir"])]
        if rng.random() < 0.5:
            steps += [bk(o)]
        scens.append({"id": sid("C13", "flt", i), "props": ["C13"], "mode": "fault", "tags": ["faults"], "steps": steps})
    # contents that are prefixes / extensions / duplicates of their neighbours, combined into shared blocks
    for i in range(12 if tier == "quick" else 150):
        t = cvlib.prefix_family_tree(rng, dirs=rng.choice([("",), ("", "d", "d.x")]))
        o = rng.choice(BIG_OPTS)
        steps = [{"op": "tree", "tree": t}, bk(o)]
        if i % 2:
            steps += prefix_history(rng, nsteps=1, deletes=False)[2:]
        scens.append({"id": sid("C13", "pfx", i), "props": ["C13"], "mode": "clean", "tags": ["prefix-family"], "steps": steps})
    scens += during_scenarios("C13", rng, 16 if tier == "quick" else 160)
    # directed: several files with the same content, each stored as a block of its own, and every
    # write of the run made to fail in turn: what a failed block write leaves in memory must not make a
    # later identical block look stored
    for i in range(4 if tier == "quick" else 40):
        c = bytes([rng.choice([1, 2, 3])]) * rng.randrange(2, 5)
        t = [node("/", "Dir")] + [node("/" + nm, "File", c, mt=(1600000800 + j, 0)) for j, nm in enumerate(rng.sample(["a", "b", "c", "d", "e"], 3))]
        t.append(node("/z", "File", bytes([7]) * rng.randrange(1, 4)))
        o = {"H": rng.choice([1, 2, 1000]), "M": rng.choice([len(c), 1000]), "S": rng.choice([0, 1])}
        scens.append({"id": sid("C13", "dupflt", i), "props": ["C13"], "mode": "fault", "tags": ["faults", "duplicates"],
                      "steps": [{"op": "tree", "tree": t},
                                {"op": "sweep", "base": bk(o), "mode": "fail", "verbs": ["write"], "kinds": ["Other", "AlreadyExists"], "sample": 0,
                                 "seed": seed * 100 + i, "then": []}]})
    # more index hunks than one index sub-directory holds (10 000): a real backup of 10 050 empty
    # files with one entry per hunk; and, for the reader, an archive written by the harness with hunks
    # on both sides of that boundary
    scens.append({"id": sid("C13", "bulk", 0), "props": ["C13"], "mode": "probe", "no_create": True, "tags": ["index-subdirectories"],
                  "steps": [{"op": "bulk_probe", "nfiles": 10050 if tier == "quick" else 20050, "H": 1}]})
    for j, tail in enumerate([True, False]):
        hunks = [{"n": n, "es": [c08_entry("/f%05d" % n, 0, n)]} for n in [0, 1, 9999, 10000, 10001, 20000]]
        scens.append({"id": sid("C13", "subdir", j), "props": ["C13"], "mode": "clean", "no_create": True, "tags": ["index-subdirectories"],
                      "steps": [{"op": "layout", "bands": [{"id": 0, "head": True, "tail": tail, "hunks": hunks}], "blocks": []},
                                {"op": "list", "band": 0}]})
    # hunk boundaries: trees with exactly k*H, k*H+1 entries
    for j, H in enumerate([1, 2, 3]):
        for nfiles in range(0, 8):
            t = [node("/", "Dir")] + [node(f"/f{x}", "File", bytes([x + 1]) * (x % 4)) for x in range(nfiles)]
            scens.append({"id": sid("C13", f"hb{H}", nfiles), "props": ["C13"], "mode": "clean", "tags": ["hunk-boundary"],
                          "steps": [{"op": "tree", "tree": t}, bk({"H": H, "M": 3, "S": 2})]})
    return scens


@check("C14", "model_checking", "TLA+ spec + TLC + trace validation: block writes of real runs judged by write-once and reuse monitors")
def gen_c14(tier, seed):
    rng = random.Random(seed * 1000 + 14)
    n = 100 if tier == "quick" else 1200
    scens = []
    for i in range(n):
        # unchanged tree backed up twice (and a third time after a gc), dedup across versions
        t = random_tree(rng, nmax=rng.choice([4, 8, 12]), pre_epoch=i % 3 == 0, maxlen=9)
        o = rng.choice(OPTS_POOL)
        o2 = rng.choice([o, o, rng.choice(OPTS_POOL)])
        steps = [{"op": "tree", "tree": t}, bk(o), bk(o2)]
        if rng.random() < 0.5:
            t2 = mut(rng, t, maxlen=9)
            steps += [{"op": "tree", "tree": t2}, bk(o), {"op": "tree", "tree": t}, bk(o)]
        scens.append({"id": sid("C14", "u", i), "props": ["C14"], "mode": "clean", "tags": ["unchanged"], "steps": steps})
    for i in range(8 if tier == "quick" else 100):
        t = cvlib.prefix_family_tree(rng, dirs=rng.choice([("",), ("", "d", "d.x")]))
        o = rng.choice(BIG_OPTS)
        scens.append({"id": sid("C14", "pfx", i), "props": ["C14"], "mode": "clean", "tags": ["unchanged", "prefix-family"],
                      "steps": [{"op": "tree", "tree": t}, bk(o), bk(o)] + prefix_history(rng, nsteps=2, deletes=False)[2:] + [bk(o)]})
    m = 16 if tier == "quick" else 200
    for i in range(m):
        # resume: every crash point of an interrupted run, followed by a backup of the same source
        t0 = random_tree(rng, nmax=rng.choice([5, 8, 12]), pre_epoch=False, maxlen=9)
        if i % 2 == 0:
            # files of a directory sort before the contents of its sub-directories: root files named
            # after the directories, so that plain string order and path order disagree inside a hunk
            have = {path_str(n["p"]) for n in t0}
            for nm in rng.sample(["m1", "z1", "zz", "k"], 2):
                if "/" + nm not in have:
                    t0.append(node("/" + nm, "File", cvlib.rand_content(rng, 5), mt=(1600000600, 0)))
            if not any(n["k"] == "Dir" and n["p"] for n in t0) and "/sub" not in have:
                t0 += [node("/sub", "Dir"), node("/sub/a", "File", b"\x01\x02"), node("/sub/b", "File", b"\x03")]
        t1 = mut(rng, t0, maxlen=9)
        o = rng.choice(OPTS_POOL[:5] + [{"H": 1000, "M": 1000, "S": 1000}, {"H": 3, "M": 8, "S": 4}])
        pre = rng.random() < 0.75
        # (the older version is often indexed with another hunk size, so that the resume point falls
        # inside one of its hunks)
        steps = ([{"op": "tree", "tree": t0}, bk(dict(o, H=rng.choice([o["H"], 2, 3, 4])))] if pre else [])
        if pre and i % 2:
            # two earlier versions, the later one adding small files: the versions share combined blocks only partly
            t1 = [dict(n) for n in t0] + [node("/n%d" % j, "File", bytes([5 + j]) * (1 + j), mt=(1600000100 + j, 0)) for j in range(rng.randrange(1, 3))
                                           if not any(path_str(n["p"]) == "/n%d" % j for n in t0)]
            steps += [{"op": "tree", "tree": t1}, bk(o)]
        steps += [{"op": "tree", "tree": t1},
                 {"op": "sweep", "base": bk(o), "mode": "crash_both", "sample": 0 if tier != "quick" else 14, "seed": i,
                  "then": [bk(o), {"op": "restore", "band": -1}]}]
        scens.append({"id": sid("C14", "resume", i), "props": ["C14"], "mode": "clean", "tags": ["resume"], "steps": steps})
    # two overlapping backups whose sources share contents: each distinct block content is still written once
    for i in range(4 if tier == "quick" else 40):
        o = rng.choice([{"H": 1000, "M": 1000, "S": 0}, {"H": 2, "M": 3, "S": 0}, {"H": 1000, "M": 1000, "S": 1}])
        shared = [bytes([rng.choice([1, 2, 3])]) * rng.randrange(2, 5) for _ in range(2)]
        ta = [node("/", "Dir"), node("/s0", "File", shared[0]), node("/s1", "File", shared[1]), node("/pa", "File", bytes([8]) * 3, mt=(1600000031, 0))]
        tb = [node("/", "Dir"), node("/s0", "File", shared[0]), node("/t1", "File", shared[1], mt=(1600000032, 0)), node("/pb", "File", bytes([9]) * 2, mt=(1600000033, 0))]
        steps = [{"op": "tree", "tree": [node("/", "Dir"), node("/z", "File", b"\x07")]}] + ([bk(o)] if i % 2 else []) + [
                 {"op": "conc_sweep", "actors": [bk(o, actor="bk1", tree=ta), bk(o, actor="bk2", tree=tb)],
                  "preemptions": 2, "sample": 60 if tier == "quick" else 1000, "seed": seed * 100 + i,
                  "then": [{"op": "restore_all"}]}]
        scens.append({"id": sid("C14", "overlap", i), "props": ["C14"], "mode": "conc", "tags": ["backup-vs-backup", "shared-contents"], "steps": steps})
    # directed: the resume point of the interrupted run is the last file of a directory whose
    # sub-directories' contents follow in the older version's hunk (path order: a directory's own
    # entries first, then the contents of its sub-directories; plain string order differs); every
    # kill point, the older version indexed with a different hunk size
    for i in range(8 if tier == "quick" else 80):
        t0 = [node("/", "Dir")]
        for d in rng.sample(["d", "e", "a.b", "b"], rng.randrange(1, 3)):
            t0.append(node("/" + d, "Dir"))
            for f in rng.sample(["a", "b", "c", "e"], rng.randrange(2, 4)):
                t0.append(node(f"/{d}/{f}", "File", cvlib.rand_content(rng, 6) or b"\x05", mt=(1600000700, 0)))
        for f in rng.sample(["m1", "m2", "z1", "zz", "k", "y"], rng.randrange(2, 5)):
            t0.append(node("/" + f, "File", cvlib.rand_content(rng, 6) or b"\x06", mt=(1600000701, 0)))
        H = rng.choice([2, 3, 4])
        o = {"H": H, "M": rng.choice([4, 1000]), "S": rng.choice([3, 1000])}
        o0 = dict(o, H=rng.choice([x for x in [2, 3, 4, 5] if x != H]))
        t1 = [dict(n) for n in t0] + [node("/" + rng.choice(["c0", "k0", "a0"]), "File", b"\x07\x08", mt=(1600000702, 0))]
        steps = [{"op": "tree", "tree": t0}, bk(o0), {"op": "tree", "tree": t1},
                 {"op": "sweep", "base": bk(o), "mode": "crash", "sample": 0, "seed": i, "then": [bk(o), {"op": "restore", "band": -1}]}]
        scens.append({"id": sid("C14", "resord", i), "props": ["C14"], "mode": "clean", "tags": ["resume", "path-order"], "steps": steps})
    # two interrupted runs in a row: the first got far through a tree whose files had all changed, then
    # files were added early in the tree and the second run is killed at every point in turn (so it has
    # as many or more hunks than the first but reaches less far); the run after them must take every
    # file the first interrupted run had stored from that run's entries
    for i in range(4 if tier == "quick" else 40):
        k = rng.randrange(8, 13)
        H = rng.choice([2, 3, 4])
        o = {"H": H, "M": 1000, "S": rng.choice([0, 0, 1000])}
        t0 = [node("/", "Dir")] + [node("/f%02d" % j, "File", bytes([j + 1, 1]), mt=(1600007000 + j, 0)) for j in range(k)]
        t1 = [node("/", "Dir")] + [node("/f%02d" % j, "File", bytes([j + 1, 2, 2]), mt=(1600007500 + j, 0)) for j in range(k)]
        t2 = [dict(n) for n in t1] + [node("/a%d" % j, "File", bytes([60 + j]) * 2, mt=(1600007900 + j, 0)) for j in range(rng.randrange(1, 4))]
        steps = [{"op": "tree", "tree": t0}, bk(dict(o, H=rng.choice([H, 5]))), {"op": "tree", "tree": t1}, bk(o, crash_from_end=rng.randrange(1, 7)),
                 {"op": "tree", "tree": t2},
                 {"op": "sweep", "base": bk(o), "mode": "crash", "sample": 0, "seed": i, "then": [bk(o), {"op": "restore", "band": -1}]}]
        scens.append({"id": sid("C14", "resume2", i), "props": ["C14"], "mode": "clean", "tags": ["resume", "two-interrupted"], "steps": steps})
    return scens


# ------------------------------------------------------------------------------------------
# crash points (C03), storage faults (C04), delete/gc (C05)

AFTER_CRASH = [{"op": "versions"}, {"op": "list_all"}, {"op": "restore_all"}, {"op": "validate"}]


def filtered_reads(tree):
    """Listings of the newest (possibly interrupted) version restricted to a directory / with a
    directory excluded: the stitched listing under a filter."""
    dirs = [path_str(nd["p"]) for nd in tree if nd["p"] and nd["k"] == "Dir"][:2]
    out = []
    for d in dirs:
        out += [{"op": "list", "band": -2, "subtree": d}, {"op": "list", "band": -2, "excl": [d]}]
    return out


def combine_tree(rng):
    """Many small files (with empty files, directories and a large file between them) and settings
    under which combined blocks fill in the middle of a hunk group, exactly at its end, or on the
    last small file of the run."""
    S = rng.choice([1, 2, 3])
    M = rng.choice([S, S + 1, 2 * S, 2 * S + 1])
    H = rng.choice([2, 3, 4, 5, 1000])
    t = [node("/", "Dir")]
    names = ["a", "b", "c", "d", "e", "f", "g", "h", "i", "j"]
    k = rng.randrange(4, 10)
    for j, nm in enumerate(names[:k]):
        r = rng.random()
        if r < 0.6:
            t.append(node("/" + nm, "File", bytes([(j % 5) + 1]) * rng.randrange(1, S + 1), mt=(1600000900 + j, 0)))
        elif r < 0.75:
            t.append(node("/" + nm, "File", b"", mt=(1600000900 + j, 0)))
        elif r < 0.9:
            t.append(node("/" + nm, "Dir"))
            t.append(node("/" + nm + "/x", "File", bytes([9]) * rng.randrange(1, S + 1), mt=(1600000950 + j, 0)))
        else:
            t.append(node("/" + nm, "File", bytes((j + i) % 7 + 1 for i in range(M + 2)), mt=(1600000900 + j, 0)))
    return t, {"H": H, "M": M, "S": S}


def shape_tree(rng):
    """A source tree from the shared catalogue of shapes (every history-based generator draws from it,
    so that a shape one property's generator lacks is not what a change hides behind): random,
    many-small-files, sizes around both thresholds with duplicate contents, prefix-named sibling
    directories, deep nesting, unusual names, one-of-each-kind, prefix-family contents.
    Returns (tag, tree, suggested settings)."""
    k = rng.randrange(8)
    if k == 0:
        return "random", random_tree(rng, nmax=rng.choice([4, 7, 10]), pre_epoch=False, maxlen=8, sibs=rng.choice([0.0, 0.4])), rng.choice(OPTS_POOL)
    if k == 1:
        t, o = combine_tree(rng)
        return "combine", t, o
    if k == 2:
        H, M, S = rng.choice([(1, 4, 2), (2, 4, 4), (3, 3, 0), (1000, 5, 3), (2, 1, 1), (3, 2, 2)])
        t = [node("/", "Dir")]
        for sz in rng.sample(range(0, 2 * M + 2), min(5, 2 * M + 2)):
            c = bytes((j % 3) + 1 for j in range(sz))
            t.append(node(f"/z{sz:02d}", "File", c, mt=(1600001000 + sz, 0)))
            if rng.random() < 0.5:
                t.append(node(f"/y{sz:02d}", "File", c, mt=(1600001100 + sz, 0)))
        return "sizes", t, {"H": H, "M": M, "S": S}
    if k == 3:
        sibs = rng.sample(["a", "a.b", "a-", "a b", "ab", "a.d", "a+", "b"], rng.randrange(2, 5))
        t = [node("/", "Dir"), node("/readme", "File", b"r")]
        for sname in sibs:
            t.append(node("/" + sname, "Dir"))
            for child in rng.sample(["10-l", "m", "old", "x", "sub"], rng.randrange(1, 4)):
                if child == "sub":
                    t.append(node(f"/{sname}/sub", "Dir"))
                    t.append(node(f"/{sname}/sub/f", "File", cvlib.rand_content(rng, 4), mt=(1600001200, 0)))
                else:
                    t.append(node(f"/{sname}/{child}", "File", cvlib.rand_content(rng, 4), mt=(1600001201, 0)))
        return "prefix-siblings", t, rng.choice(OPTS_POOL[:6])
    if k == 4:
        t = [node("/", "Dir")]
        path = ""
        for d in range(rng.randrange(4, 8)):
            path += "/" + rng.choice(["d", "é", "a.b", "-x", "zz"])
            t.append(node(path, "Dir", mode=rng.choice([0o755, 0o700, 0o1777, 0o2750])))
            if rng.random() < 0.7:
                t.append(node(path + "/f", "File", cvlib.rand_content(rng, 6), mt=(1600001300 + d, 0)))
        return "deep", t, rng.choice(OPTS_POOL[:6])
    if k == 5:
        t = [node("/", "Dir")]
        for i, nm in enumerate(rng.sample(["ÿ", "日本", "a b", "#", "!", "~", "..a", "a..", "...", "-", " s", ".h", "A", "a"], 6)):
            t.append(node("/" + nm, rng.choice(["File", "File", "Dir"]), bytes([i + 1]) * (i % 3), mt=(1600001400 + i, 0)))
        t = [n if n["k"] == "File" else dict(n, c=[]) for n in t]
        return "names", t, rng.choice(OPTS_POOL[:6])
    if k == 6:
        t = [node("/", "Dir"), node("/d", "Dir"), node("/d/f", "File", b"\x01\x02"), node("/e", "Dir"), node("/f", "File", b"\x03"),
             node("/l", "Symlink", target="f", mt=(1600001500, 0)), node("/m", "Symlink", target="d", mt=(1600001501, 0)), node("/z", "File", b"")]
        return "kinds", t, rng.choice(OPTS_POOL[:6])
    t = cvlib.prefix_family_tree(rng, dirs=rng.choice([("",), ("", "d", "d.x")]))
    return "prefix-family", t, rng.choice(BIG_OPTS)


@check("C03", "model_checking", "TLA+ spec + TLC (every pc of the backup actor x clean/empty-file crash) + crash-point enumeration on the real code, every intermediate state judged by the spec's monitors")
def gen_c03(tier, seed):
    rng = random.Random(seed * 1000 + 3)
    n = 32 if tier == "quick" else 300
    scens = []
    for i in range(n):
        o = rng.choice(OPTS_POOL[:6])
        t1 = random_tree(rng, nmax=rng.choice([3, 5, 7]), pre_epoch=False, maxlen=8)
        if i % 3 == 2:
            _, t1, o = shape_tree(rng)
        prev = ["none", "one", "two", "incomplete", "emptyhead", "one", "headless"][i % 7]
        steps = []
        if prev != "none":
            t0 = mut(rng, t1, maxlen=8)
            steps += [{"op": "tree", "tree": t0}, bk(rng.choice(OPTS_POOL[:6]))]
            if prev == "two":
                steps += [{"op": "tree", "tree": mut(rng, t0, maxlen=8)}, bk(o)]
            if prev == "incomplete":
                steps += [{"op": "tree", "tree": mut(rng, t0, maxlen=8)}, bk(o, crash_at=rng.randrange(8, 30))]
            if prev == "emptyhead":
                # an earlier run killed while writing its BANDHEAD (zero-length head), between a complete
                # version and the run under test
                steps += [{"op": "tree", "tree": mut(rng, t0, maxlen=8)}, bk(o, crash_at=6, crash_empty=True)]
            if prev == "headless":
                steps += [{"op": "tree", "tree": mut(rng, t0, maxlen=8)}, bk(o, crash_at=rng.choice([5, 6]))]
        steps += [{"op": "tree", "tree": t1},
                  {"op": "sweep", "base": bk(o), "mode": "crash_both", "sample": 0 if tier != "quick" else 24, "seed": seed * 100 + i,
                   "then": AFTER_CRASH + (filtered_reads(t1) if prev != "none" else []) + [bk(o), {"op": "restore", "band": -1}]}]
        scens.append({"id": sid("C03", prev, i), "props": ["C03"], "mode": "clean", "tags": ["crash", prev], "steps": steps})
    # a backup stopped by an error it returns (a write that fails), the process living on and the
    # storage working again: what it recorded is still a prefix of the new content
    for i in range(8 if tier == "quick" else 100):
        _, t1, o = shape_tree(rng) if i % 2 else ("combine",) + combine_tree(rng)
        t1 = t1 + [node("/zz_large", "File", bytes((j % 5) + 1 for j in range(o["M"] + 3 if o["M"] < 50 else 9)), mt=(1600011000, 0))]
        steps = [{"op": "tree", "tree": mut(rng, t1, maxlen=4)}, bk(o), {"op": "tree", "tree": t1},
                 {"op": "sweep", "base": bk(o), "mode": "fail", "verbs": ["write"], "kinds": ["Other"], "sample": 0 if tier != "quick" else 20,
                  "seed": seed * 100 + i, "then": [{"op": "versions"}, {"op": "list_all"}, {"op": "restore_all"}, bk(o), {"op": "restore", "band": -1}]}]
        scens.append({"id": sid("C03", "abort", i), "props": ["C03"], "mode": "fault", "tags": ["abort-by-error"], "steps": steps})
    # many small files: combined blocks that fill in the middle of a group, at its end, on the last file
    for i in range(8 if tier == "quick" else 100):
        t1, o = combine_tree(rng)
        steps = []
        if i % 2:
            t0, _ = combine_tree(rng)
            steps += [{"op": "tree", "tree": t0}, bk(o)]
        steps += [{"op": "tree", "tree": t1},
                  {"op": "sweep", "base": bk(o), "mode": "crash_both", "sample": 0 if tier != "quick" else 20, "seed": seed * 100 + i,
                   "then": AFTER_CRASH + [bk(o), {"op": "restore", "band": -1}]}]
        scens.append({"id": sid("C03", "combine", i), "props": ["C03"], "mode": "clean", "tags": ["crash", "combine"], "steps": steps})
    return scens


def with_dups(rng, tree, p=0.45):
    """Give some files the content of another file (same bytes under different paths), so that
    dedup decisions happen inside one backup run."""
    files = [n for n in tree if n["k"] == "File" and n["c"]]
    for n in tree:
        if n["k"] == "File" and files and rng.random() < p:
            n["c"] = list(rng.choice(files)["c"])
    return tree


C04_OPTS = [{"H": 1000, "M": 3, "S": 2}, {"H": 2, "M": 4, "S": 3}, {"H": 3, "M": 2, "S": 2}, {"H": 1000, "M": 6, "S": 5},
            {"H": 1, "M": 2, "S": 1}, {"H": 4, "M": 5, "S": 2}, {"H": 1000, "M": 2, "S": 0}, {"H": 3, "M": 1000, "S": 0}]


@check("C04", "fault_enumeration", "TLA+ spec + TLC + enumeration of every failing storage verb x error kind of real backups, traces validated against the spec's monitors")
def gen_c04(tier, seed):
    rng = random.Random(seed * 1000 + 4)
    n = 30 if tier == "quick" else 300
    scens = []
    after = [{"op": "restore_all"}]
    for i in range(n):
        # small block sizes so that combined-block flushes happen mid-run
        o = rng.choice(C04_OPTS)
        t1 = with_dups(rng, random_tree(rng, nmax=rng.choice([4, 6, 9]), pre_epoch=False, maxlen=6, symlinks=False, depth=2))
        if i % 4 == 3:
            _, t1, o = shape_tree(rng)
        steps = []
        if rng.random() < 0.6:
            steps += [{"op": "tree", "tree": mut(rng, t1, maxlen=6)}, bk(rng.choice(OPTS_POOL[:5]))]
        if i % 5 == 4:
            # the newest earlier version is an interrupted one that holds data
            steps += [{"op": "tree", "tree": mut(rng, t1, maxlen=6)}, bk(rng.choice(OPTS_POOL[:5]), crash_from_end=rng.randrange(1, 4))]
        writes = i % 3 != 2
        sw = {"op": "sweep", "base": bk(o), "mode": "fail", "sample": 0 if tier != "quick" else (48 if writes else 24),
              "seed": seed * 100 + i, "then": after}
        if writes:
            sw["verbs"] = ["write", "create_dir"]
        steps += [{"op": "tree", "tree": t1}, sw]
        scens.append({"id": sid("C04", "fw" if writes else "fa", i), "props": ["C04"], "mode": "fault",
                      "tags": ["single-fault", "writes" if writes else "all-verbs"], "steps": steps})
    for i in range(6 if tier == "quick" else 80):
        t1, o = combine_tree(rng)
        scens.append({"id": sid("C04", "combine", i), "props": ["C04"], "mode": "fault", "tags": ["single-fault", "combine"],
                      "steps": [{"op": "tree", "tree": t1},
                                {"op": "sweep", "base": bk(o), "mode": "fail", "verbs": ["write", "create_dir"], "sample": 0 if tier != "quick" else 32,
                                 "seed": seed * 100 + i, "then": after}]})
    # new blocks that belong in d/xyz directories which already hold blocks of the earlier version
    for i in range(4 if tier == "quick" else 60):
        t0, t1, o = cvlib.mates_pair(rng)
        scens.append({"id": sid("C04", "mates", i), "props": ["C04"], "mode": "fault", "tags": ["single-fault", "subdir-mates"],
                      "steps": [{"op": "tree", "tree": t0}, bk(o), {"op": "tree", "tree": t1},
                                {"op": "sweep", "base": bk(o), "mode": "fail", "verbs": ["write", "create_dir"], "sample": 0,
                                 "seed": seed * 100 + i, "then": after}]})
    m = 60 if tier == "quick" else 1000
    for i in range(m):
        o = rng.choice(C04_OPTS)
        t1 = with_dups(rng, random_tree(rng, nmax=rng.choice([4, 6, 9]), pre_epoch=False, maxlen=6, symlinks=False, depth=2))
        steps = []
        if rng.random() < 0.5:
            steps += [{"op": "tree", "tree": mut(rng, t1, maxlen=6)}, bk(rng.choice(OPTS_POOL[:5]))]
        steps += [{"op": "tree", "tree": t1}, bk(o, fail_p=rng.choice([0.03, 0.08, 0.15]), fail_seed=seed * 7919 + i,
                                                  **({"fail_verbs": ["write", "create_dir"]} if i % 2 else {}))] + after
        scens.append({"id": sid("C04", "mf", i), "props": ["C04"], "mode": "fault", "tags": ["multi-fault"], "steps": steps})
    return scens


def shared_block_history(rng):
    """Directed family for C05: versions that share combined blocks only partly (the file at the
    start of a combined block changes or disappears while its neighbours stay), blocks referenced
    only through an incomplete band, garbage from an interrupted run; then a delete of some
    versions."""
    k = rng.randrange(2, 6)
    names = rng.sample(["a", "b", "c", "d", "e", "f", "g"], k)
    t0 = [node("/", "Dir")] + [node("/" + nm, "File", bytes([rng.choice([1, 2, 3])]) * rng.randrange(1, 4),
                                    mt=(1600000000 + j, 0)) for j, nm in enumerate(sorted(names))]
    o = rng.choice([{"H": 1000, "M": 1000, "S": 1000}, {"H": 1000, "M": 4, "S": 3}, {"H": 2, "M": 6, "S": 3}, {"H": 1, "M": 1000, "S": 5}])
    steps = [{"op": "tree", "tree": t0}, bk(o)]
    t = t0
    nb = 1
    for _ in range(rng.randrange(1, 4)):
        t = [dict(n) for n in t]
        files = [n for n in t if n["k"] == "File"]
        how = rng.choice(["first", "first", "any", "remove-first", "add"])
        if how == "first" and files:
            files[0]["c"] = list(bytes([rng.choice([4, 5, 6])]) * rng.randrange(1, 4))
            files[0]["mt"] = [files[0]["mt"][0] + 100, 0]
        elif how == "any" and files:
            f = rng.choice(files)
            f["c"] = list(bytes([rng.choice([4, 5, 6])]) * rng.randrange(1, 4))
            f["mt"] = [f["mt"][0] + 100, 0]
        elif how == "remove-first" and len(files) > 1:
            t.remove(files[0])
        else:
            nm = rng.choice(["h", "i", "A", "0"])
            if not any(path_str(n["p"]) == "/" + nm for n in t):
                t.append(node("/" + nm, "File", bytes([7]) * rng.randrange(1, 4), mt=(1600000500, 0)))
        steps.append({"op": "tree", "tree": t})
        if rng.random() < 0.25:
            steps.append(bk(o, crash_at=rng.randrange(10, 40)))
            nb += 1
            steps.append(bk(o))
        else:
            steps.append(bk(o))
        nb += 1
    sel = rng.choice([[0], [0], list(range(nb - 1)), sorted(rng.sample(range(nb), rng.randrange(0, nb))), [nb - 1]])
    return steps, sel


@check("C05", "model_checking", "TLA+ spec + TLC (Delete actor, crash pcs, failing reads) + crash/fault enumeration of real delete_bands runs on archives from random histories")
def gen_c05(tier, seed):
    rng = random.Random(seed * 1000 + 5)
    n = 48 if tier == "quick" else 500
    scens = []
    for i in range(n):
        if i % 6 == 4:
            # versions whose unshared blocks sit in the same d/xyz directories as blocks of the other
            t0, t1, o = cvlib.mates_pair(rng)
            steps = [{"op": "tree", "tree": t0}, bk(o), {"op": "tree", "tree": t1}, bk(o)]
            sel = rng.choice([[0], [1], []])
            fam = "subdir-mates"
        elif i % 2 == 0:
            steps, sel = shared_block_history(rng)
            fam = "shared"
        else:
            steps = history_steps(rng, rng.choice([3, 4, 6]), interrupts=True, deletes=False, observe=None, check_each=False, validate=False)
            # make sure the newest band is complete so that delete is allowed to run
            steps.append(bk(rng.choice(OPTS_POOL[:5])))
            nb = sum(1 for s in steps if s["op"] == "backup")
            sel = rng.sample(range(nb), rng.randrange(0, nb + 1))
            if i % 4 != 3:
                sel.sort()
            fam = "random"
        base = {"op": "delete", "bands": sel, "dry": False}
        kind = ["dry", "crash", "fail-reads", "plain"][(i // 2) % 4]
        if kind == "dry":
            steps += [{"op": "delete", "bands": sel, "dry": True}, {"op": "restore_all"},
                      # a dry run changes nothing whatever else is asked for (--break-lock with and without a stale lock)
                      {"op": "delete", "bands": sel, "dry": True, "break_lock": True}, {"op": "restore_all"}]
            if i % 8 == 0:
                steps += [{"op": "delete", "bands": sel, "dry": False, "crash_at": rng.randrange(6, 14)},
                          {"op": "delete", "bands": sel, "dry": True, "break_lock": True}, {"op": "restore_all"}]
            steps += [dict(base, break_lock=True), {"op": "restore_all"}, {"op": "validate"}]
        elif kind == "plain":
            steps += [base, {"op": "restore_all"}, {"op": "validate"}, {"op": "delete", "bands": [], "dry": False}, {"op": "restore_all"}]
        elif kind == "crash":
            # a kill before every verb, and (torn) kills inside the recursive removal of a version's
            # directory that leave an arbitrary subset of its files; afterwards the stale lock is
            # broken by a gc, and a new backup stitches over whatever is left
            after = [{"op": "restore_all"}]
            if i % 4 == 2:
                after += [{"op": "delete", "bands": [], "dry": False, "break_lock": True}, {"op": "restore_all"},
                          bk(rng.choice(OPTS_POOL[:5])), {"op": "restore_all"}]
            steps.append({"op": "sweep", "base": base, "mode": "crash", "sample": 0 if tier != "quick" else 20, "seed": seed * 100 + i,
                          "torn": 2 if tier == "quick" else 5, "then": after})
        else:
            # a failing read while working out what is referenced (the statement's clause), and -- every
            # other scenario -- a failing verb of any kind, removals included: whatever the delete then
            # reports, what is left must still restore
            sw = {"op": "sweep", "base": base, "mode": "fail",
                  "kinds": ["NotFound", "PermissionDenied", "Other"], "sample": 0 if tier != "quick" else 24, "seed": seed * 100 + i,
                  "then": [{"op": "restore_all"}]}
            if (i // 8) % 2 == 0:
                sw["verbs"] = ["read", "list_dir", "metadata"]
            steps.append(sw)
        scens.append({"id": sid("C05", kind, i), "props": ["C05"], "mode": "clean", "tags": [kind, fam], "steps": steps})
    # archives holding versions written by older releases (a BANDTAIL without a hunk count), written in
    # the documented format by the harness: deleting other versions / gc must not touch what they reference
    import hashlib

    def short_of(content):
        full = hashlib.blake2b(bytes(content), digest_size=64).hexdigest()
        return full[:8] + "-" + hashlib.blake2b(full.encode(), digest_size=4).hexdigest()

    for i in range(6 if tier == "quick" else 60):
        nb = rng.randrange(2, 4)
        blocks, bands = [], []
        for b in range(nb):
            es = [{"p": [], "k": "Dir", "mt": [1600012000, 0], "mode": 493, "u": "root", "g": "root", "a": [], "t": []}]
            for j, nm in enumerate(rng.sample(["a", "b", "c", "d"], rng.randrange(1, 4))):
                c = [rng.choice([1, 2, 3]), b + 10, j] if rng.random() < 0.7 else [5, 5]
                if c not in blocks:
                    blocks.append(c)
                es.append({"p": cvlib.comps("/" + nm), "k": "File", "mt": [1600012000 + b, 0], "mode": 420, "u": "root", "g": "root",
                           "a": [{"h": short_of(c), "s": 0, "n": len(c)}], "t": []})
            es.sort(key=lambda e: [bytes(x) for x in e["p"]])
            hunks = [{"n": k, "es": es[k * 2:k * 2 + 2]} for k in range((len(es) + 1) // 2)]
            bands.append({"id": b, "head": True, "tail": True, "hunks": hunks, "legacy_tail": rng.random() < 0.6})
        garbage = [9, 9, 9]
        steps = [{"op": "layout", "bands": bands, "blocks": blocks + [garbage]}, {"op": "restore_all"},
                 {"op": "delete", "bands": rng.choice([[nb - 1], [0], []]), "dry": False}, {"op": "restore_all"},
                 {"op": "delete", "bands": [], "dry": False}, {"op": "restore_all"}, {"op": "validate", "quick": False}]
        scens.append({"id": sid("C05", "legacy", i), "props": ["C05"], "mode": "clean", "no_create": True, "tags": ["plain", "legacy-tail"], "steps": steps})
    # an archive in which one stored file is already lost or damaged: a gc / delete on it must still not
    # remove anything that a kept version references (what is left of every version restores as before)
    for i in range(4 if tier == "quick" else 40):
        if i % 2:
            t0, t1, o = cvlib.mates_pair(rng)
            steps = [{"op": "tree", "tree": t0}, bk(o), {"op": "tree", "tree": t1}, bk(o), {"op": "tree", "tree": mut(rng, t1, maxlen=5)}, bk(o)]
        else:
            steps, sel0 = shared_block_history(rng)
        nb = sum(1 for st in steps if st["op"] == "backup")
        steps.append({"op": "damage_sweep", "with_header": False, "with_tails": False, "hows": ["delete", "trunc0", "garbage"],
                      "sample": 0 if tier != "quick" else 16, "seed": seed * 100 + i,
                      "then": [{"op": "delete", "bands": rng.choice([[], [], [0], [nb - 1]]), "dry": False, "break_lock": False},
                               {"op": "restore_all"}]})
        scens.append({"id": sid("C05", "damaged", i), "props": ["C05"], "mode": "clean", "tags": ["plain", "damaged-archive"], "steps": steps})
    # many blocks: two versions of 120-200 one-block files sharing half of them, one version deleted
    for i in range(2 if tier == "quick" else 10):
        n = rng.choice([120, 160, 200])
        t0 = [node("/", "Dir")] + [node("/f%03d" % j, "File", bytes([(j % 250) + 1, 1, (j // 250) + 1]), mt=(1600004000 + j, 0)) for j in range(n)]
        t1 = [node("/", "Dir")] + [node("/f%03d" % j, "File", bytes([(j % 250) + 1, 1 if j % 2 else 2, (j // 250) + 1]), mt=(1600004000 + j + (0 if j % 2 else 500), 0)) for j in range(n)]
        o = {"H": rng.choice([1000, 50]), "M": 1000, "S": 0}
        steps = [{"op": "tree", "tree": t0}, bk(o), {"op": "tree", "tree": t1}, bk(o),
                 {"op": "delete", "bands": [rng.choice([0, 1])], "dry": False}, {"op": "restore_all"}, {"op": "validate", "quick": False},
                 {"op": "delete", "bands": [], "dry": False}, {"op": "restore_all"}]
        scens.append({"id": sid("C05", "many", i), "props": ["C05"], "mode": "clean", "tags": ["plain", "many-blocks"], "steps": steps})
    return scens


# ------------------------------------------------------------------------------------------
# C06 gc || backup, C07 write-once and backup || backup

def conc_archive(rng):
    """History + new source for the interlock scenarios: 1-2 complete versions, a block that only
    an old version references (it becomes garbage when that version is deleted) whose content
    reappears in the new source, a block referenced by a kept version, a new block; sometimes
    garbage left by an interrupted run."""
    o = rng.choice([{"H": 2, "M": 4, "S": 2}, {"H": 1000, "M": 1000, "S": 1000}, {"H": 1, "M": 3, "S": 0}, {"H": 3, "M": 2, "S": 1}])
    c_old = bytes([rng.choice([1, 2, 3])]) * rng.randrange(2, 5)      # only in version 0
    c_keep = bytes([rng.choice([4, 5])]) * rng.randrange(2, 5)        # in every version
    c_new = bytes([rng.choice([6, 7])]) * rng.randrange(2, 5)         # only in the new source
    if rng.random() < 0.3:
        # all three stored in the same d/xyz directory (where every file is a block of its own)
        c_keep, c_new = cvlib.subdir_mate(rng, c_old), cvlib.subdir_mate(rng, c_old)
    t0 = [node("/", "Dir"), node("/a", "File", c_keep), node("/b", "File", c_old)]
    steps = [{"op": "tree", "tree": t0}, bk(o)]
    nb = 1
    if rng.random() < 0.4:
        # garbage: an interrupted run stores a block and dies before the hunk; the next backup does not need it
        c_g = bytes([9]) * rng.randrange(2, 5)
        tg = [node("/", "Dir"), node("/a", "File", c_keep), node("/g", "File", c_g, mt=(1600000009, 0))]
        steps += [{"op": "tree", "tree": tg}, bk(o, crash_at=rng.randrange(12, 22))]
        nb += 1
    else:
        c_g = None
    if rng.random() < 0.8 or c_g is not None:
        t1 = [node("/", "Dir"), node("/a", "File", c_keep), node("/q", "File", bytes([8]) * 3, mt=(1600000003, 0))]
        steps += [{"op": "tree", "tree": t1}, bk(o)]
        nb += 1
    t2 = [node("/", "Dir"), node("/a", "File", c_keep), node("/c", "File", c_old, mt=(1600000005, 0)),
          node("/d", "File", c_new, mt=(1600000007, 0))]
    if c_g is not None:
        t2.append(node("/g2", "File", c_g, mt=(1600000011, 0)))
    steps.append({"op": "tree", "tree": t2})
    return steps, o, nb


@check("C06", "model_checking", "TLA+ spec (Interlock.tla: backup || gc at storage-verb granularity, all interleavings by TLC) + real runs under a deterministic scheduler with preemption-bounded schedule enumeration, traces validated by TLC")
def gen_c06(tier, seed):
    rng = random.Random(seed * 1000 + 6)
    mcs = []
    for cfg in ["Interlock_repo.cfg"]:
        r = cvlib.run_tlc_model("MC_Interlock.tla", cfg, timeout=600)
        mcs.append(("MC_Interlock.tla", cfg, r))
    scens = []
    n = 24 if tier == "quick" else 200
    for i in range(n):
        steps, o, nb = conc_archive(rng)
        dele = rng.choice([[0], [0], [], [nb - 1], list(range(nb))])
        if i % 6 == 5:
            # no version yet (a new archive, or every version deleted): the gc's baseline is "no band"
            if rng.random() < 0.5:
                steps, dele = [steps[-1]], []
            else:
                steps = steps[:-1] + [{"op": "delete", "bands": list(range(nb)), "dry": False}, steps[-1]]
                dele = []
        steps.append({"op": "conc_sweep",
                      "actors": [bk(o, actor="bk"), {"op": "delete", "bands": dele, "actor": "gc", "break_lock": i % 3 == 1}],
                      "preemptions": 2 if tier == "quick" or i % 4 else 3,
                      "sample": 60 if tier == "quick" else 1500, "seed": seed * 100 + i,
                      # every schedule with up to 3 preemptions (quick: an even spread of them) is first run
                      # with the log muted and screened with the harness's decoder; the suspicious ones are
                      # then executed with full logging and judged by TLC like the sampled ones
                      "screen": 3, "screen_cap": (2500 if i % 2 == 0 else 1000) if tier == "quick" else 40000,
                      "then": [{"op": "restore_all"}, {"op": "validate"}]})
        scens.append({"id": sid("C06", "s", i), "props": ["C06"], "mode": "conc", "tags": ["gc-vs-backup", "del" + "".join(map(str, dele))],
                      "steps": steps})
    # a kill and an interleaving in one scenario: an earlier delete was killed and left its lock; a
    # delete --break-lock then races a backup through the moment between removing the stale lock and
    # writing its own
    for i in range(4 if tier == "quick" else 40):
        steps, o, nb = conc_archive(rng)
        steps = steps[:-1] + [{"op": "delete", "bands": [0] if i % 2 else [], "dry": False, "crash_at": rng.randrange(4, 14)}, steps[-1]]
        dele = rng.choice([[0], [], [nb - 1]])
        steps.append({"op": "conc_sweep",
                      "actors": [bk(o, actor="bk"), {"op": "delete", "bands": dele, "actor": "gc", "break_lock": True}],
                      "preemptions": 2, "sample": 60 if tier == "quick" else 1500, "seed": seed * 100 + 50 + i,
                      "screen": 3, "screen_cap": 1000 if tier == "quick" else 40000,
                      "then": [{"op": "restore_all"}, {"op": "validate"}]})
        scens.append({"id": sid("C06", "stale", i), "props": ["C06"], "mode": "conc", "tags": ["gc-vs-backup", "stale-lock", "break-lock"],
                      "steps": steps})
    return scens, mcs


@check("C07", "model_checking", "TLA+ spec (write-once contract in Storage.tla, two-backup race in Interlock.tla checked by TLC) + every storage verb of real histories and of scheduled backup||backup runs judged by the spec's write-once monitors")
def gen_c07(tier, seed):
    rng = random.Random(seed * 1000 + 7)
    mcs = []
    r = cvlib.run_tlc_model("MC_Interlock.tla", "Interlock_race_repo.cfg", timeout=600)
    mcs.append(("MC_Interlock.tla", "Interlock_race_repo.cfg", r))
    # two gcs and a backup: the lock of a working gc is never removed by another
    r = cvlib.run_tlc_model("MC_Interlock.tla", "Interlock_gcrace_repo.cfg", timeout=900)
    mcs.append(("MC_Interlock.tla", "Interlock_gcrace_repo.cfg", r))
    scens = []
    # single-writer clauses: histories with interrupted and resumed backups, deletes, gcs
    n = 100 if tier == "quick" else 1500
    for i in range(n):
        steps = history_steps(rng, rng.choice([4, 6, 9]), observe=None, validate=False)
        scens.append({"id": sid("C07", "h", i), "props": ["C07"], "mode": "clean", "tags": ["history"], "steps": steps})
    # a new version's id is above every existing one also when the ids have five digits
    for i, top in enumerate([9998, 9999, 10000, 99999]):
        lay = [{"st": "complete", "hunks": [[1]], "off": 0}, {"st": rng.choice(["complete", "incomplete"]), "hunks": [[1]], "off": 0}]
        base = c08_scenario(sid("C07", "bigid", i), lay, ["/a"], [top - rng.randrange(1, 4), top], ["big-ids"])
        t = random_tree(rng, nmax=3, pre_epoch=False, maxlen=4)
        scens.append({"id": sid("C07", "bigid", i), "props": ["C07"], "mode": "clean", "no_create": True, "tags": ["big-ids"],
                      "steps": [base["steps"][0], {"op": "tree", "tree": t}, bk(rng.choice(OPTS_POOL[:5])), {"op": "tree", "tree": mut(rng, t, maxlen=4)},
                                bk(rng.choice(OPTS_POOL[:5])), {"op": "versions"}, {"op": "restore", "band": -1}]})
    # hundreds of versions in one archive directory (the file system then lists them in hash order, not
    # in creation or numeric order): the next id is still above all of them, "latest" is the highest
    for i, N in enumerate([300] if tier == "quick" else [300, 700]):
        lay = [{"st": "complete" if j != N - 2 else "incomplete", "hunks": [[1]], "off": 0} for j in range(N)]
        base = c08_scenario(sid("C07", "manybands", i), lay, ["/a"], list(range(N)), ["many-versions"])
        t = random_tree(rng, nmax=3, pre_epoch=False, maxlen=4)
        scens.append({"id": sid("C07", "manybands", i), "props": ["C07"], "mode": "clean", "no_create": True, "tags": ["many-versions"],
                      "steps": [base["steps"][0], {"op": "versions"}, {"op": "restore", "band": -1}, {"op": "tree", "tree": t}, bk(OPTS_POOL[0]),
                                {"op": "versions"}, {"op": "restore", "band": -1}, {"op": "delete", "bands": [N - 1, 5, N], "dry": False}, {"op": "versions"},
                                bk(OPTS_POOL[1]), {"op": "versions"}, {"op": "restore", "band": -1}]})
    # a backup that fails part-way removes and overwrites nothing either: every write / create_dir of a
    # second backup made to fail in turn (and every kill point), over an archive whose d/xyz
    # directories the new blocks share with old ones
    for i in range(8 if tier == "quick" else 80):
        t0, t1, o = cvlib.mates_pair(rng)
        if i % 4 == 3:
            t0 = random_tree(rng, nmax=4, pre_epoch=False, maxlen=6)
            t1, o = mut(rng, t0, maxlen=6, nmut=3), rng.choice(OPTS_POOL[:6])
        sw = {"op": "sweep", "base": bk(o), "mode": "fail" if i % 2 == 0 else "crash", "sample": 0 if tier != "quick" else 30,
              "seed": seed * 100 + i, "then": [{"op": "restore_all"}]}
        if i % 2 == 0:
            sw["verbs"] = ["write", "create_dir"]
        scens.append({"id": sid("C07", "failing", i), "props": ["C07"], "mode": "fault", "tags": ["failing-backup", "subdir-mates"],
                      "steps": [{"op": "tree", "tree": t0}, bk(o), {"op": "tree", "tree": t1}, sw]})
    # direct contract probe of the transport
    scens.append({"id": sid("C07", "probe", 0), "props": ["C07"], "mode": "probe", "tags": ["contract-probe"], "steps": [
        {"op": "probe_write", "path": "probe_x", "content": [1, 2, 3], "mode": "new"},
        {"op": "probe_write", "path": "probe_x", "content": [4, 5], "mode": "new"},
        {"op": "probe_write", "path": "probe_x", "content": [1, 2, 3], "mode": "new"},
        {"op": "probe_write", "path": "probe_y", "content": [], "mode": "new"},
        {"op": "probe_write", "path": "probe_y", "content": [7], "mode": "new"},
        {"op": "probe_write", "path": "probe_y", "content": [8], "mode": "new"},
        {"op": "probe_write", "path": "probe_x", "content": [9], "mode": "over"}]})
    # race clause: two backups of differing sources
    m = 16 if tier == "quick" else 150
    for i in range(m):
        o = rng.choice(OPTS_POOL[:6])
        steps = []
        t0 = random_tree(rng, nmax=4, pre_epoch=False, maxlen=6)
        for _ in range(rng.randrange(0, 3)):
            steps += [{"op": "tree", "tree": t0}, bk(o)]
            t0 = mut(rng, t0, maxlen=6)
        ta = random_tree(rng, nmax=4, pre_epoch=False, maxlen=6)
        tb = mut(rng, ta, maxlen=6, nmut=3)
        steps.append({"op": "conc_sweep",
                      "actors": [bk(o, actor="bk1", tree=ta), bk(rng.choice(OPTS_POOL[:6]), actor="bk2", tree=tb)],
                      "preemptions": 2, "sample": 50 if tier == "quick" else 1000, "seed": seed * 100 + i,
                      "screen": 3, "screen_cap": 800 if tier == "quick" else 20000,
                      "then": [{"op": "restore_all"}]})
        scens.append({"id": sid("C07", "race", i), "props": ["C07"], "mode": "conc", "tags": ["backup-vs-backup"], "steps": steps})
    # a lock that is not one's own (the stale lock of a killed delete, or that of a gc still running) is
    # left alone by everything but --break-lock: dry runs, refused deletes, backups
    for i in range(6 if tier == "quick" else 60):
        steps, o, nb = conc_archive(rng)
        steps = steps[:-1]
        steps += [{"op": "delete", "bands": [0], "dry": False, "crash_at": rng.randrange(5, 12)}]
        if i % 2:
            # ... and has been lying there for days or years
            steps.append({"op": "age_files", "days": rng.choice([2, 40, 800])})
        steps += [{"op": "delete", "bands": rng.choice([[0], []]), "dry": True}, {"op": "versions"},
                  {"op": "delete", "bands": [], "dry": False}, bk(o), {"op": "versions"},
                  {"op": "delete", "bands": [], "dry": rng.random() < 0.5, "break_lock": True}, {"op": "restore_all"}]
        scens.append({"id": sid("C07", "stale-lock", i), "props": ["C07"], "mode": "clean", "tags": ["stale-lock"], "steps": steps})
    for i in range(4 if tier == "quick" else 40):
        steps, o, nb = conc_archive(rng)
        steps = steps[:-1]
        steps.append({"op": "conc_sweep", "actors": [{"op": "delete", "bands": rng.choice([[0], []]), "actor": "gc1"},
                                                     {"op": "delete", "bands": rng.choice([[0], []]), "dry": True, "actor": "gc2"}],
                      "preemptions": 2, "sample": 40 if tier == "quick" else 600, "seed": seed * 100 + i,
                      "then": [{"op": "restore_all"}]})
        scens.append({"id": sid("C07", "gc-vs-dryrun", i), "props": ["C07"], "mode": "conc", "tags": ["gc-vs-gc", "dry-run"], "steps": steps})
    # two backups that both need a content whose block file is the zero-length leftover of a killed write
    for i in range(6 if tier == "quick" else 60):
        o = rng.choice([{"H": 1000, "M": 1000, "S": 0}, {"H": 2, "M": 3, "S": 0}, {"H": 1000, "M": 1000, "S": 1}])
        shared = bytes([rng.choice([1, 2, 3])]) * rng.randrange(2, 4)
        t0 = [node("/", "Dir"), node("/a", "File", shared), node("/b", "File", bytes([5]) * 2)]
        ta = [node("/", "Dir"), node("/a", "File", shared), node("/c", "File", bytes([6]) * 3, mt=(1600000021, 0))]
        tb = [node("/", "Dir"), node("/a", "File", shared), node("/d", "File", bytes([7]) * 2, mt=(1600000022, 0))]
        steps = [{"op": "tree", "tree": t0}] + ([bk(o)] if i % 2 else []) + [{"op": "leftover_block", "content": list(shared)},
                 {"op": "conc_sweep", "actors": [bk(o, actor="bk1", tree=ta), bk(o, actor="bk2", tree=tb)],
                  "preemptions": 2, "sample": 60 if tier == "quick" else 1000, "seed": seed * 100 + i,
                  "then": [{"op": "restore_all"}]}]
        scens.append({"id": sid("C07", "leftover-race", i), "props": ["C07"], "mode": "conc", "tags": ["backup-vs-backup", "empty-leftover"], "steps": steps})
    # two deletes / gcs started at the same moment: each removes only the requested versions,
    # unreferenced blocks and ITS OWN lock
    for i in range(8 if tier == "quick" else 80):
        steps, o, nb = conc_archive(rng)
        steps = steps[:-1]
        d1 = rng.choice([[0], [], [nb - 1]])
        d2 = rng.choice([[], [0], list(range(nb))])
        steps.append({"op": "conc_sweep", "actors": [{"op": "delete", "bands": d1, "actor": "gc1"}, {"op": "delete", "bands": d2, "actor": "gc2"}],
                      "preemptions": 2, "sample": 40 if tier == "quick" else 600, "seed": seed * 100 + i,
                      "screen": 3, "screen_cap": 800 if tier == "quick" else 20000,
                      "then": [{"op": "restore_all"}, bk(o), {"op": "restore", "band": -1}]})
        scens.append({"id": sid("C07", "gcrace", i), "props": ["C07"], "mode": "conc", "tags": ["gc-vs-gc"], "steps": steps})
    return scens, mcs


# ------------------------------------------------------------------------------------------
# C09 validate accuracy, C10 containment of damage

def damage_archive(rng):
    """A small archive from a varied history: complete versions, sometimes an interrupted one with
    a header, shared combined blocks, multi-block files, several hunks."""
    o = rng.choice([{"H": 2, "M": 3, "S": 2}, {"H": 1, "M": 4, "S": 3}, {"H": 3, "M": 2, "S": 1}, {"H": 1000, "M": 1000, "S": 1000}, {"H": 2, "M": 1000, "S": 1000}])
    t = random_tree(rng, nmax=rng.choice([3, 5, 7]), depth=3, pre_epoch=False, maxlen=7)
    if rng.random() < 0.35:
        tag, t, o2 = shape_tree(rng)
        if tag != "prefix-family":
            o = o2
        else:
            t = random_tree(rng, nmax=5, depth=3, pre_epoch=False, maxlen=7)
    # make sure there is something to damage: at least two files, one of them spanning blocks
    t.append(node("/big", "File", bytes((j % 5) + 1 for j in range(7)), mt=(1600000050, 0)))
    t.append(node("/s1", "File", b"\x01\x02", mt=(1600000051, 0)))
    t.append(node("/s2", "File", b"\x03", mt=(1600000052, 0)))
    steps = [{"op": "tree", "tree": t}, bk(o)]
    for _ in range(rng.randrange(0, 3)):
        t = mut(rng, t, maxlen=7)
        steps += [{"op": "tree", "tree": t}, bk(o)]
    r = rng.random()
    if r < 0.3:
        t = mut(rng, t, maxlen=7, nmut=3)
        steps += [{"op": "tree", "tree": t}, bk(o, crash_at=rng.randrange(16, 40))]
    elif r < 0.6:
        # an interrupted newest version that got far: the files sorting first were rewritten since the
        # older version (whose blocks are now referenced by the older version alone, at paths the
        # interrupted one has already covered), and the kill comes near the end
        t = [dict(n) for n in t]
        files = sorted((n for n in t if n["k"] == "File"), key=lambda n: (len(n["p"]), [bytes(c) for c in n["p"]]))
        for f in files[:rng.randrange(1, 3)]:
            f["c"] = list(bytes([rng.choice([9, 10, 11])]) * rng.randrange(1, 6))
            f["mt"] = [f["mt"][0] + 777, 0]
        steps += [{"op": "tree", "tree": t}, bk(o, crash_from_end=rng.randrange(1, 6))]
    return steps, o


@check("C09", "fault_enumeration", "TLA+ spec (LegalState / DamageMatters over the archive state, Format.tla) + enumeration of every archive file x damage kind on archives from real histories, validate's verdict judged by TLC")
def gen_c09(tier, seed):
    rng = random.Random(seed * 1000 + 9)
    scens = []
    # healthy side: histories with interrupted-with-header backups, deletes, gcs
    n = 40 if tier == "quick" else 500
    for i in range(n):
        steps = history_steps(rng, rng.choice([3, 5, 8]), observe=None, validate=False, check_each=False)
        out = []
        for st in steps:
            out.append(st)
            if st["op"] in ("backup", "delete"):
                out.append({"op": "validate", "quick": False})
                out.append({"op": "validate", "quick": True})
        scens.append({"id": sid("C09", "healthy", i), "props": ["C09"], "mode": "clean", "tags": ["healthy"], "steps": out})
    # default settings and more than 20 MiB of small files: a combined block that overruns max_block_size
    for i in range(1 if tier == "quick" else 3):
        t = [node("/", "Dir")] + [node("/m%02d" % j, "File", cg=[["r", 1000000 + 17 * j, 100 + j + i]], mt=(1600008000 + j, 0)) for j in range(rng.choice([22, 24]))]
        t.append(node("/tiny", "File", b"x"))
        scens.append({"id": sid("C09", "overrun", i), "props": ["C09"], "mode": "big", "tags": ["healthy", "big", "default-settings"],
                      "steps": [{"op": "tree", "tree": t}, bk({"H": 100000, "M": 20 << 20, "S": 1 << 20}),
                                {"op": "validate", "quick": False}, {"op": "validate", "quick": True}, {"op": "restore", "band": 0}]})
    # more blocks than any batch / window / cache a validator may use (150-260 one-block files): damage to
    # random blocks must be reported whichever of them it hits
    for i in range(2 if tier == "quick" else 12):
        nfiles = rng.choice([150, 210, 260])
        t = [node("/", "Dir")] + [node("/f%03d" % j, "File", bytes([(j % 250) + 1, (j // 250) + 1, 7]), mt=(1600002000 + j, 0)) for j in range(nfiles)]
        steps = [{"op": "tree", "tree": t}, bk({"H": 1000, "M": 1000, "S": 0}), {"op": "validate", "quick": False},
                 {"op": "damage_sweep", "with_header": False, "with_tails": False, "hows": ["garbage", "delete"], "bitflips": 1,
                  "only": "Block", "sample": 24 if tier == "quick" else 120, "seed": seed * 100 + i,
                  "then": [{"op": "validate", "quick": False}]}]
        scens.append({"id": sid("C09", "many", i), "props": ["C09"], "mode": "clean", "tags": ["damage", "many-blocks"], "steps": steps})
    # damage side
    m = 24 if tier == "quick" else 200
    for i in range(m):
        steps, o = damage_archive(rng)
        steps += [{"op": "validate", "quick": False},
                  {"op": "damage_sweep", "with_header": True, "with_tails": False, "bitflips": 1 if tier == "quick" else 4,
                   "sample": 0 if tier != "quick" else 60, "seed": seed * 100 + i,
                   "then": [{"op": "validate", "quick": False}, {"op": "validate", "quick": True}]}]
        scens.append({"id": sid("C09", "dmg", i), "props": ["C09"], "mode": "clean", "tags": ["damage"], "steps": steps})
    return scens


@check("C10", "fault_enumeration", "TLA+ spec (containment monitors over healthy vs damaged archive state) + enumeration of every archive file x damage kind; all read operations and a new backup run on the real code, judged by TLC")
def gen_c10(tier, seed):
    rng = random.Random(seed * 1000 + 10)
    scens = []
    m = 24 if tier == "quick" else 200
    for i in range(m):
        steps, o = damage_archive(rng)
        steps += [{"op": "damage_sweep", "with_header": False, "with_tails": True, "bitflips": 2 if tier == "quick" else 6,
                   "smart_flips": 6 if tier == "quick" else 16,
                   "sample": 0 if tier != "quick" else 50, "seed": seed * 100 + i,
                   "then": [{"op": "versions"}, {"op": "list_all"}, {"op": "restore_all", "latest": True},
                            {"op": "validate", "quick": False}, {"op": "validate", "quick": True},
                            bk(o), {"op": "restore", "band": -2}]}]
        scens.append({"id": sid("C10", "dmg", i), "props": ["C10"], "mode": "clean", "tags": ["damage"], "steps": steps})
    return scens


# ------------------------------------------------------------------------------------------
# C11 path order and validity, C12 subtree selection

APATH_COMPS_Q = [" ", "-", ".a", "a", "a.b", "ab", "b", "é", "éa", "z"]
APATH_COMPS_T = [" ", ".a", "a", "ab", "é", "z"]


def apath_strings(tier, rng):
    """Raw strings for the comparator / validity / ancestor tables: every path up to a depth over the
    component alphabet (the same set MC_Apath.tla quantifies over), plus ill-formed strings."""
    comps = APATH_COMPS_Q
    valid = ["/"] + ["/" + a for a in comps] + ["/" + a + "/" + b for a in comps for b in comps]
    P = ["a", "a.b", "a-", "a b", "ab"]
    valid += ["/" + a + "/" + b + "/" + c for a in P for b in P for c in P]
    if tier != "quick":
        valid += ["/" + a + "/" + b + "/" + c for a in APATH_COMPS_T for b in APATH_COMPS_T for c in APATH_COMPS_T]
        valid += ["/a/b/c/d", "/a/b/c/é", "/é/é/é/é", "/ab/a/b/ " ]
    NUL = chr(0)
    bad = ["", "a", "a/b", "//", "/a/", "/a//b", "//a", "/.", "/..", "/a/.", "/a/..", "/./a", "/../a", "/a/./b", "/a/../b",
           "/a" + NUL, "/" + NUL, "/a/b" + NUL + "c", ".", "..", "/ /", "é", "/é/", "/é//a", "/..a/..", "/.../.", " /a", chr(92) + "a"]
    tricky_valid = ["/...", "/..a", "/a..", "/.a.", "/ ", "/-", "/a/ ", "/" + chr(92)]
    allv = list(dict.fromkeys(valid + tricky_valid))
    strings = allv + bad
    rng.shuffle(strings)
    return strings


def apath_table_scenario(prop, tier, rng, chunk=None):
    strings = apath_strings(tier, rng)
    if chunk:
        strings = strings[:chunk]
    return {"id": sid(prop, "table", 0), "props": [prop], "mode": "probe", "no_create": True, "tags": ["apath-table"],
            "steps": [{"op": "apath_table", "strings": [list(x.encode("utf-8")) for x in strings], "block": 12}]}


ORDER_NAMES = [" ", "-", ".a", "a", "a.b", "ab", "b", "é", "éa", "z", "A", "~", "a b", "0", "a-", "a/"]


@check("C11", "model_checking", "TLA+ spec (Apath.tla): order theorems checked by TLC over all triples of bounded paths; the real comparator, validity test and source walk compared with the spec by TLC on exported tables / recorded walks")
def gen_c11(tier, seed):
    rng = random.Random(seed * 1000 + 11)
    mcs = []
    cfg = "MC_Apath_quick.cfg" if tier == "quick" else "MC_Apath_thorough.cfg"
    r = cvlib.run_tlc_model("MC_Apath.tla", cfg, timeout=3000)
    mcs.append(("MC_Apath.tla", cfg, r))
    r2 = cvlib.run_tlc_model("MC_Apath.tla", "MC_Apath_prefix.cfg", timeout=1200)
    mcs.append(("MC_Apath.tla", "MC_Apath_prefix.cfg", r2))
    scens = [apath_table_scenario("C11", tier, rng)]
    names = [n for n in ORDER_NAMES if "/" not in n]
    # directed: sibling directories whose names extend one another with a byte below '/', each with nested content
    for i in range(12 if tier == "quick" else 100):
        sibs = rng.sample(["a", "a.b", "a-", "a b", "ab", "a-b", "a+", "a,"], rng.randrange(2, 5))
        t = [node("/", "Dir")]
        for sname in sibs:
            t.append(node("/" + sname, "Dir"))
            for child in rng.sample(["b", "x", "-", "a.b"], rng.randrange(1, 3)):
                if rng.random() < 0.6:
                    t.append(node(f"/{sname}/{child}", "Dir"))
                    t.append(node(f"/{sname}/{child}/{rng.choice(['x', 'y', '0'])}", "File", b"q"))
                else:
                    t.append(node(f"/{sname}/{child}", "File", b"r"))
        o = {"H": rng.choice([1, 2, 3, 1000]), "M": 1000, "S": 1000}
        t2 = mut(rng, t, maxlen=3, nmut=1)
        scens.append({"id": sid("C11", "sib", i), "props": ["C11"], "mode": "clean", "tags": ["walk", "prefix-siblings"],
                      "steps": [{"op": "tree", "tree": t}, {"op": "walk"}, bk(o), {"op": "list", "band": 0},
                                {"op": "tree", "tree": t2}, {"op": "walk"}, bk(o), {"op": "restore", "band": 1}]})
    # names that are not valid UTF-8 (Latin-1 leftovers): they cannot be archive paths; whatever the
    # walk does with them, what it emits and what gets written stays strictly increasing
    for i in range(6 if tier == "quick" else 60):
        t = random_tree(rng, nmax=4, depth=2, names=["a", "b", "menus"], pre_epoch=False, maxlen=3, symlinks=False)
        dirs = [nd for nd in t if nd["k"] == "Dir"]
        for raw in rng.sample([b"caf\xe9", b"caf\xe8", b"caf\xeb", b"\xfftes", b"\xfetes", b"x\xc3", b"\x80", b"caf\xef\xbf\xbd"], rng.randrange(2, 5)):
            parent = rng.choice(dirs)
            nd = node("/x", rng.choice(["File", "File", "Dir"]), b"" if rng.random() < 0.5 else b"\x01")
            nd["p"] = parent["p"] + [list(raw)]
            if nd["k"] == "Dir":
                nd["c"] = []
            if not any(m["p"] == nd["p"] for m in t):
                t.append(nd)
        o = {"H": rng.choice([1, 2, 1000]), "M": 1000, "S": 1000}
        scens.append({"id": sid("C11", "nonutf8", i), "props": ["C11"], "mode": "clean", "tags": ["walk", "non-utf8-names"],
                      "steps": [{"op": "tree", "tree": t}, {"op": "walk"}, bk(o), {"op": "list", "band": 0}]})
    # settings under which entries reach the index writer by different routes (queued directly, through
    # the small-file combiner, after a combined block filled): whatever the route, what is written is ordered
    for i in range(16 if tier == "quick" else 200):
        _, t, o = shape_tree(rng) if i % 2 else ("combine",) + combine_tree(rng)
        t2 = mut(rng, t, maxlen=3, nmut=2)
        scens.append({"id": sid("C11", "routes", i), "props": ["C11"], "mode": "clean", "tags": ["walk", "index-routes"],
                      "steps": [{"op": "tree", "tree": t}, {"op": "walk"}, bk(o), {"op": "list", "band": 0},
                                {"op": "tree", "tree": t2}, bk(o), {"op": "list", "band": 1}]})
    # stitched listings: a second backup killed at every point, the older version indexed with another hunk
    # size, sub-directories whose contents sort after root files that plain string order would put first:
    # what is listed from the interrupted version and the one before it is strictly increasing
    for i in range(5 if tier == "quick" else 50):
        t0 = [node("/", "Dir")]
        for d in rng.sample(["a", "d", "a.b", "b"], rng.randrange(1, 3)):
            t0.append(node("/" + d, "Dir"))
            for f in rng.sample(["x", "y", "b", "e"], rng.randrange(2, 4)):
                t0.append(node(f"/{d}/{f}", "File", cvlib.rand_content(rng, 4) or b"\x05", mt=(1600000700, 0)))
        for f in rng.sample(["b", "c", "e", "m1", "zz", "k"], rng.randrange(3, 6)):
            if not any(path_str(n["p"]) == "/" + f for n in t0):
                t0.append(node("/" + f, "File", cvlib.rand_content(rng, 4) or b"\x06", mt=(1600000701, 0)))
        H = rng.choice([2, 3, 4, 7])
        o = {"H": H, "M": 1000, "S": rng.choice([0, 1000])}
        t1 = mut(rng, t0, maxlen=4, nmut=2)
        scens.append({"id": sid("C11", "stitched", i), "props": ["C11"], "mode": "clean", "tags": ["walk", "stitched-listing"],
                      "steps": [{"op": "tree", "tree": t0}, bk(dict(o, H=rng.choice([1000, 5, H]))), {"op": "tree", "tree": t1},
                                {"op": "sweep", "base": bk(o), "mode": "crash", "sample": 0 if tier != "quick" else 16, "seed": seed * 100 + i,
                                 "then": [{"op": "list", "band": -2}, {"op": "list", "band": -2, "subtree": "/" + path_str(t0[1]["p"]).strip("/")}]}]})
    # the order also holds for what is written while the source changes under the backup
    scens += during_scenarios("C11", rng, 16 if tier == "quick" else 160)
    n = 80 if tier == "quick" else 1000
    for i in range(n):
        t = random_tree(rng, nmax=rng.choice([5, 9, 14, 20]), depth=4, names=names, pre_epoch=False, maxlen=4)
        o = {"H": rng.choice([1, 2, 3, 4, 1000]), "M": 1000, "S": 1000}
        scens.append({"id": sid("C11", "walk", i), "props": ["C11"], "mode": "clean", "tags": ["walk"],
                      "steps": [{"op": "tree", "tree": t}, {"op": "walk"}, bk(o), {"op": "list", "band": 0}]})
    return scens, mcs


def c12_tree(rng):
    names = ["a", "ab", "a.b", "a-", "é", "éa", "éé", "b", "日", "日本", "z"]
    return random_tree(rng, nmax=rng.choice([6, 10, 16]), depth=4, names=names, pre_epoch=False, maxlen=5, symlinks=True)


@check("C12", "model_checking", "TLA+ spec (Apath!IsAncestorOrSelf, Reader!Listing): real is_prefix_of table, subtree listings and subtree restores compared with the spec by TLC; MC_Stitch proves the filter commutes with stitching")
def gen_c12(tier, seed):
    rng = random.Random(seed * 1000 + 12)
    mcs = []
    r = cvlib.run_tlc_model("MC_Apath.tla", "MC_Apath_quick.cfg", timeout=1200)
    mcs.append(("MC_Apath.tla", "MC_Apath_quick.cfg", r))
    scens = [apath_table_scenario("C12", tier, rng)]
    n = 120 if tier == "quick" else 1200
    for i in range(n):
        t = c12_tree(rng)
        o = {"H": rng.choice([1, 2, 3, 4, 5, 7, 1000]), "M": rng.choice([2, 1000]), "S": rng.choice([1, 1000])}
        steps = [{"op": "tree", "tree": t}, bk(o)]
        paths = [path_str(nd["p"]) for nd in t if nd["p"]]
        dirs = [path_str(nd["p"]) for nd in t if nd["p"] and nd["k"] == "Dir"]
        # every existing path, textual siblings of existing paths, and missing paths
        subs = list(paths)
        for q in paths[:6]:
            subs += [q + "a", q[:-1] if len(q) > 2 else "/zz", q + "/nope"]
        subs = [x for x in dict.fromkeys(subs) if x != "/" and not x.endswith("/")]
        if tier == "quick" and len(subs) > 14:
            subs = rng.sample(subs, 14)
        for sub in subs:
            steps.append({"op": "list", "band": 0, "subtree": sub})
        for d in (dirs if tier != "quick" else dirs[:5]):
            steps.append({"op": "restore", "band": 0, "subtree": d})
        if i % 3 == 0:
            # on a stitched (interrupted) version too
            t2 = mut(rng, t, names=["a", "ab", "é", "éa", "日"], maxlen=5)
            steps += [{"op": "tree", "tree": t2}, bk(o, crash_at=rng.randrange(14, 40))]
            for sub in subs[:6]:
                steps.append({"op": "list", "band": 1, "subtree": sub})
            for d in dirs[:3]:
                steps.append({"op": "restore", "band": 1, "subtree": d})
        scens.append({"id": sid("C12", "sub", i), "props": ["C12"], "mode": "clean", "tags": ["subtree"], "steps": steps})
    # subtree selection on interrupted (stitched) versions in which something under S was deleted,
    # renamed or replaced since the older version: every kill point of the second backup (sampled in
    # quick), each followed by listing and restoring S and its neighbours
    for i in range(24 if tier == "quick" else 250):
        t = c12_tree(rng)
        dirs = [nd for nd in t if nd["p"] and nd["k"] == "Dir"]
        if not dirs:
            t.append(node("/a", "Dir"))
            dirs = [t[-1]]
        # make sure S has several children
        S = rng.choice(dirs)
        have = {path_str(nd["p"]) for nd in t}
        for nm in rng.sample(["a", "k", "zz", "é", "m.x"], 3):
            q = path_str(S["p"]) + "/" + nm
            if q not in have:
                have.add(q)
                t.append(node(q, "File", cvlib.rand_content(rng, 4), mt=(1600000300, 0)))
        o = {"H": rng.choice([1, 2, 3]), "M": rng.choice([2, 1000]), "S": rng.choice([1, 1000])}
        t2 = [dict(nd) for nd in t]
        kids = sorted((nd for nd in t2 if len(nd["p"]) == len(S["p"]) + 1 and nd["p"][:len(S["p"])] == S["p"]), key=lambda nd: bytes(nd["p"][-1]))
        victim = rng.choice([kids[-1], kids[-1], kids[0], rng.choice(kids)])
        t2 = [nd for nd in t2 if nd["p"][:len(victim["p"])] != victim["p"]]
        if rng.random() < 0.5:
            t2 = mut(rng, t2, names=["a", "ab", "é", "éa", "日"], maxlen=5, nmut=1)
        Sp = path_str(S["p"])
        others = [path_str(nd["p"]) for nd in dirs if nd is not S][:2]
        then = [{"op": "list", "band": 1}, {"op": "list", "band": 1, "subtree": Sp}, {"op": "restore", "band": 1, "subtree": Sp}]
        for x in others:
            then.append({"op": "list", "band": 1, "subtree": x})
        steps = [{"op": "tree", "tree": t}, bk(o), {"op": "tree", "tree": t2},
                 {"op": "sweep", "base": bk(o), "mode": "crash", "sample": 0 if tier != "quick" else 10, "seed": seed * 100 + i, "then": then}]
        scens.append({"id": sid("C12", "stdel", i), "props": ["C12"], "mode": "clean", "tags": ["subtree", "stitched-deletion"], "steps": steps})
    return scens, mcs


# ------------------------------------------------------------------------------------------
# C15 exclusions, C16 restore containment, C17 determinism, C18 diff

EXCL_NAMES = ["a", "ab", "b", "tmp", "cache", "x.o", "y.o", "é", "éa", "d", "e", ".h", "A"]
EXCL_PATTERNS = ["a", "/a", "ab", "*.o", "/d/*.o", "tmp", "/tmp", "**/cache", "d/e", "/d/e", "?", "/?", "[ab]", "/d/[!a]*", "é", "é*",
                 "/é", "*", "/*/*", "a*", "**/a", "/d/**", "d", "/d", "e", "x.?", "*b", ".h", "/A/a", "A"]


@check("C15", "model_checking", "TLA+ spec (Reader!Excluded over an abstract match relation; MC_Exclude proves walk-pruning = per-entry filtering for all trees x all matchers) + real backup/list/restore with exclusions judged by TLC using match facts from globset")
def gen_c15(tier, seed):
    rng = random.Random(seed * 1000 + 15)
    mcs = []
    r = cvlib.run_tlc_model("MC_Exclude.tla", "MC_Exclude_thorough.cfg", timeout=600)
    mcs.append(("MC_Exclude.tla", "MC_Exclude_thorough.cfg", r))
    scens = []
    n = 250 if tier == "quick" else 3000
    for i in range(n):
        t = random_tree(rng, nmax=rng.choice([6, 10, 16]), depth=4, names=EXCL_NAMES, pre_epoch=False, maxlen=4, sibs=rng.choice([0.0, 0.0, 0.4]))
        pats = rng.sample(EXCL_PATTERNS, rng.randrange(1, 4))
        # a pattern naming an existing directory with children, anchored or not
        dirs = [path_str(nd["p"]) for nd in t if nd["p"] and nd["k"] == "Dir"]
        if dirs and rng.random() < 0.6:
            d = rng.choice(dirs)
            pats.append(rng.choice([d, d.split("/")[-1], d + "/*"]))
        o = {"H": rng.choice([1, 2, 3, 1000]), "M": 1000, "S": 1000}
        steps = [{"op": "tree", "tree": t}, {"op": "walk", "excl": pats},
                 bk(o, excl=pats), {"op": "list", "band": 0}, {"op": "restore", "band": 0},
                 bk(o), {"op": "list", "band": 1, "excl": pats}, {"op": "restore", "band": 1, "excl": pats}]
        if dirs and rng.random() < 0.3:
            steps.append({"op": "list", "band": 1, "excl": pats, "subtree": rng.choice(dirs)})
        # the same full tree indexed with other hunk sizes: where an excluded directory's own entry and
        # its children fall relative to hunk boundaries must not matter on the reading side
        for j, H in enumerate(rng.sample([2, 3, 4, 5, 6, 8], 2 if tier == "quick" else 4)):
            steps += [bk({"H": H, "M": 1000, "S": 1000}), {"op": "list", "band": 2 + j, "excl": pats}]
            if j == 0:
                steps.append({"op": "restore", "band": 2 + j, "excl": pats})
        scens.append({"id": sid("C15", "x", i), "props": ["C15"], "mode": "clean", "tags": ["exclude"], "steps": steps})
    # the same names at several depths, patterns anchored at the root, at a depth, and unanchored
    for i in range(60 if tier == "quick" else 800):
        nm = rng.sample(["a", "b", "build", "x.o", "tmp", "d"], 4)
        t = random_tree(rng, nmax=rng.choice([8, 12, 18]), depth=4, names=nm, pre_epoch=False, maxlen=3)
        tops = [path_str(nd["p"]) for nd in t if len(nd["p"]) == 1]
        deep = [path_str(nd["p"]) for nd in t if len(nd["p"]) >= 2]
        pats = []
        if tops:
            x = rng.choice(tops)
            pats.append(rng.choice([x, x[:-1] + "?", "/" + x[1:2] + "*", "/*" + x[-1:]]))
        if deep and rng.random() < 0.5:
            pats.append(rng.choice(deep))
        if rng.random() < 0.4:
            pats.append(rng.choice(nm))
        if not pats:
            pats = ["/a"]
        o = {"H": rng.choice([1, 2, 3, 1000]), "M": 1000, "S": 1000}
        scens.append({"id": sid("C15", "depths", i), "props": ["C15"], "mode": "clean", "tags": ["exclude", "repeated-names"],
                      "steps": [{"op": "tree", "tree": t}, {"op": "walk", "excl": pats}, bk(o, excl=pats), {"op": "list", "band": 0},
                                bk(o), {"op": "list", "band": 1, "excl": pats}, {"op": "restore", "band": 1, "excl": pats}]})
    return scens, mcs


OUTSIDE = [node("/", "Dir", mode=0o755), node("/sentinel_file", "File", b"do not touch", mt=(1500000000, 7), mode=0o640, u="root", g="root"),
           node("/sentinel_dir", "Dir", mt=(1500000001, 0), mode=0o750), node("/sentinel_dir/inner", "File", b"inner", mt=(1500000002, 0), mode=0o600),
           node("/sentinel_link", "Symlink", target="sentinel_file", mt=(1500000003, 0))]
LINK_TARGETS = ["@OUTSIDE@/sentinel_file", "@OUTSIDE@/sentinel_dir", "@OUTSIDE@/sentinel_dir/inner", "@OUTSIDE@", "..", "../outside/sentinel_file",
                "../outside/sentinel_dir", "../../outside/sentinel_file", "../outside/sentinel_link", "a", "d", ".", "/", "/etc/passwd", "dangling", "../outside"]


@check("C16", "model_checking", "TLA+ spec (Restore.tla: restore as file-system calls with symlink resolution and the chown-clears-setuid rule, checked by TLC for all bounded trees; follow-variants refuted) + trace validation of real restores in a sandbox whose surroundings are watched (recursive lstat/content digest before and after)")
def gen_c16(tier, seed):
    rng = random.Random(seed * 1000 + 16)
    scens = []
    n = 250 if tier == "quick" else 3000
    for i in range(n):
        t = random_tree(rng, nmax=rng.choice([4, 7, 10]), depth=3, pre_epoch=False, maxlen=4, symlinks=False, names=["a", "b", "d", "e", "l", "m"])
        dirs = [nd for nd in t if nd["k"] == "Dir"]
        used = {path_str(nd["p"]) for nd in t}
        for j in range(rng.randrange(1, 5)):
            parent = rng.choice(dirs)
            name = rng.choice(["l", "m", "ln%d" % j, "z"])
            p = parent["p"] + [list(name.encode())]
            if path_str(p) in used:
                continue
            used.add(path_str(p))
            u, g = rng.choice(cvlib.OWNERS)
            t.append(node(path_str(p), "Symlink", target=rng.choice(LINK_TARGETS), mt=rng.choice(cvlib.MTIMES[:3]), u=u, g=g))
        if i % 3 == 0:
            # a symlink named like a temporary, backup or partial name of a sibling file
            for parent in rng.sample(dirs, min(len(dirs), 2)):
                stem = rng.choice(["report", "x", "data"])
                f = parent["p"] + [list((stem + rng.choice([".txt", ".y", ""])).encode())]
                if path_str(f) not in used:
                    used.add(path_str(f))
                    t.append(node(path_str(f), "File", cvlib.rand_content(rng, 4) or b"\x01", mode=rng.choice([0o644, 0o600, 0o755])))
                for suf in rng.sample([".tmp", ".bak", ".part", ".new", "~", ".swp", ".tmp~", ".orig"], 3):
                    for base in (stem, bytes(f[-1]).decode()):
                        l = parent["p"] + [list((base + suf).encode())]
                        if path_str(l) not in used:
                            used.add(path_str(l))
                            t.append(node(path_str(l), "Symlink", target=rng.choice(LINK_TARGETS[:4] + LINK_TARGETS[5:9]), mt=rng.choice(cvlib.MTIMES[:3])))
        o = rand_opts(rng)
        steps = [{"op": "outside", "tree": OUTSIDE}, {"op": "tree", "tree": t}, bk(o)]
        dest = rng.choice(["fresh", "fresh", "absent", "nonempty"])
        steps.append({"op": "restore", "band": 0, "dest": dest, "strace": i % 2 == 0})
        if rng.random() < 0.4:
            steps.append({"op": "restore", "band": 0, "dest": "nonempty", "overwrite": False})
        if rng.random() < 0.4:
            ds = [path_str(nd["p"]) for nd in t if nd["p"] and nd["k"] == "Dir"]
            if ds:
                steps.append({"op": "restore", "band": 0, "subtree": rng.choice(ds)})
        if rng.random() < 0.3:
            steps.append({"op": "restore", "band": 0, "excl": [rng.choice(["a", "l", "/d", "*"])]})
        # the refusal of a non-empty destination does not depend on what is selected
        if rng.random() < 0.35:
            ds = [path_str(nd["p"]) for nd in t if nd["p"] and nd["k"] == "Dir"]
            sel = {"subtree": rng.choice(ds)} if ds and rng.random() < 0.6 else {"excl": [rng.choice(["a", "l", "/d", "*", "/"])]}
            steps.append(dict({"op": "restore", "band": 0, "dest": "nonempty", "overwrite": False}, **sel))
        # what a non-empty destination holds: a file, a symlink (to a sentinel outside, or dangling), an empty
        # directory, an empty file, a fifo -- under a name of its own, a name the version also has, a hidden
        # name, or a name that is not UTF-8
        tops = [nd["p"][0] for nd in t if len(nd["p"]) == 1 and nd["k"] == "File"]
        for st in steps:
            if st.get("dest") == "nonempty":
                st["holds"] = rng.choice(["file", "file", "symlink_out", "symlink_out", "symlink_dir_out", "dangling", "emptydir", "emptyfile", "fifo"])
                nm = rng.choice([list(b"preexisting"), list(b".hidden"), list(b"caf\xe9")] + ([rng.choice(tops)] * 2 if tops else []))
                st["holds_name"] = [int(b) for b in nm]
        scens.append({"id": sid("C16", "s", i), "props": ["C16"], "mode": "clean", "tags": ["sandbox"], "steps": steps})
    # archive paths that are also real paths of this machine: the source tree holds /tmp/<unique>/..., and
    # the host has files at exactly those absolute paths; plain restores, and restores in which a block
    # cannot be read, touch nothing there
    for i in range(4 if tier == "quick" else 40):
        t = [node("/", "Dir"), node("/tmp", "Dir"), node("/tmp/@MIRROR@", "Dir"),
             node("/tmp/@MIRROR@/report", "File", cvlib.rand_content(rng, 5) or b"\x01", mode=0o640),
             node("/tmp/@MIRROR@/notes", "File", cvlib.rand_content(rng, 5) or b"\x02", mt=(1600000400, 0)),
             node("/tmp/@MIRROR@/sub", "Dir", mode=0o750), node("/tmp/@MIRROR@/sub/deep", "File", b"\x03\x04", mt=(1600000401, 5)),
             node("/tmp/@MIRROR@/cur", "Symlink", target="report"), node("/other", "File", b"\x09")]
        o = {"H": rng.choice([2, 1000]), "M": 1000, "S": rng.choice([0, 0, 1000])}
        steps = [{"op": "outside", "tree": OUTSIDE}, {"op": "tree", "tree": t}, bk(o),
                 {"op": "restore", "band": 0, "dest": "fresh", "strace": i % 2 == 0},
                 {"op": "restore", "band": 0, "subtree": "/tmp", "dest": "absent"},
                 {"op": "damage_sweep", "with_header": False, "with_tails": False, "only": "Block", "hows": ["delete", "trunc0"], "sample": 0,
                  "seed": seed * 100 + i, "then": [{"op": "restore", "band": 0, "dest": "fresh"}, {"op": "restore", "band": 0, "dest": "nonempty", "overwrite": True}]}]
        scens.append({"id": sid("C16", "mirror", i), "props": ["C16"], "mode": "clean", "tags": ["sandbox", "host-mirror"], "steps": steps})
    return scens


@check("C17", "exploration", "TLA+ trace validation of two replays of the same history under different runtime flavours; byte digests compared by the harness, decoded archive states compared by TLC")
def gen_c17(tier, seed):
    rng = random.Random(seed * 1000 + 17)
    scens = []
    n = 100 if tier == "quick" else 1000
    # "-nodrain": the runtime is shut down as soon as the operation returns, as a command-line
    # program does; whatever the operation left to a spawned task may or may not happen
    flavors = ["ct", "mt1", "mt2", "mt8", "ct-nodrain", "mt2-nodrain"]
    for i in range(n):
        hist = history_steps(rng, rng.choice([3, 5, 8]), observe=None, validate=False, check_each=False)
        f1, f2 = rng.sample(flavors, 2)
        if i % 2 == 0:
            f1, f2 = rng.choice(["ct", "mt2", "mt8"]), rng.choice(["ct-nodrain", "mt2-nodrain"])
        steps = [{"op": "new_archive", "rt": f1}] + hist + [{"op": "archive_digest"}, {"op": "new_archive", "rt": f2}] + hist + [{"op": "archive_digest"}]
        if tier != "quick":
            f3 = rng.choice(flavors)
            steps += [{"op": "new_archive", "rt": f3}] + hist + [{"op": "archive_digest"}]
        scens.append({"id": sid("C17", "r", i), "props": ["C17"], "mode": "clean", "tags": ["replay", f1, f2], "steps": steps})
    # a gc of many unreferenced blocks in which the removal of ONE block (chosen by its content, not by
    # its position in the run) is refused: what is left must not depend on scheduling
    for i in range(3 if tier == "quick" else 20):
        n = rng.choice([90, 140, 200])
        cont = lambda j: bytes([(j % 250) + 1, 3, (j // 250) + 1])
        t0 = [node("/", "Dir"), node("/keep", "File", b"\x01\x01")]
        t1 = [node("/", "Dir"), node("/keep", "File", b"\x01\x01")] + [node("/f%03d" % j, "File", cont(j), mt=(1600009000 + j, 0)) for j in range(n)]
        o = {"H": 1000, "M": 1000, "S": 0}
        victim = cont(rng.randrange(n))
        hist = [{"op": "tree", "tree": t0}, bk(o), {"op": "tree", "tree": t1}, bk(o),
                {"op": "delete", "bands": [1], "dry": False, "fail_block": [{"verb": "remove_file", "content": list(victim), "kind": rng.choice(["PermissionDenied", "Other"])}]}]
        f1, f2 = rng.sample(["ct", "mt2", "mt8"], 2)
        steps = [{"op": "new_archive", "rt": f1}] + hist + [{"op": "archive_digest"}, {"op": "new_archive", "rt": f2}] + hist + [{"op": "archive_digest"}]
        scens.append({"id": sid("C17", "refused-removal", i), "props": ["C17"], "mode": "clean", "tags": ["replay", "fault-by-name", "many-blocks"], "steps": steps})
    # files whose mtime is slightly ahead of (or just behind) the clock when the first replay starts, and
    # a second replay that starts a few seconds later: nothing but the documented start/end times may
    # depend on when a backup runs
    NOW = 9_000_000_000
    for i in range(4 if tier == "quick" else 24):
        t = [node("/", "Dir")] + [node("/" + nm, "File", bytes([j + 1]) * rng.randrange(1, 4), mt=(NOW + rng.choice([-2, 0, 1, 2, 3]), 0)) for j, nm in enumerate(["racy", "s1", "s2"])]
        t.append(node("/changing", "File", b"\x01", mt=(1600006000, 0)))
        t2 = [dict(n) for n in t]
        t2[-1] = node("/changing", "File", b"\x02\x02", mt=(1600006001, 0))
        o = rng.choice([{"H": 1000, "M": 1000, "S": 1000}, {"H": 2, "M": 6, "S": 4}])
        hist = [{"op": "tree", "tree": t}, bk(o), {"op": "tree", "tree": t2}, bk(o)]
        steps = [{"op": "new_archive", "rt": "ct"}] + hist + [{"op": "archive_digest"}, {"op": "new_archive", "rt": "ct", "sleep_ms": 4200}] + hist + [{"op": "archive_digest"}]
        scens.append({"id": sid("C17", "clock", i), "props": ["C17"], "mode": "clean", "tags": ["replay", "clock"], "steps": steps})
    for i in range(8 if tier == "quick" else 100):
        hist = big_history(rng, nsteps=rng.choice([1, 2]))
        f1, f2 = rng.sample(flavors, 2)
        steps = [{"op": "new_archive", "rt": f1}] + hist + [{"op": "archive_digest"}, {"op": "new_archive", "rt": f2}] + hist + [{"op": "archive_digest"}]
        scens.append({"id": sid("C17", "big", i), "props": ["C17"], "mode": "big", "tags": ["replay", "big", f1, f2], "steps": steps})
    # histories over contents that are prefixes / duplicates of one another at 40-260 bytes, combined
    # into shared blocks: whatever the program derives from them must not depend on hash-map
    # iteration order, addresses or the time
    for i in range(40 if tier == "quick" else 400):
        hist = prefix_history(rng, nsteps=rng.choice([1, 2, 3]))
        f1, f2 = rng.sample(flavors, 2)
        steps = [{"op": "new_archive", "rt": f1}] + hist + [{"op": "archive_digest"}, {"op": "new_archive", "rt": f2}] + hist + [{"op": "archive_digest"}]
        steps += [{"op": "new_archive", "rt": f1}] + hist + [{"op": "archive_digest"}]
        scens.append({"id": sid("C17", "pfx", i), "props": ["C17"], "mode": "clean", "tags": ["replay", "prefix-family", f1, f2], "steps": steps})
    # a history too large to log verb by verb, replayed inside the harness under two runtime flavours:
    # more than 10 000 index hunks (several index sub-directories), then the unchanged tree again
    # (in one replay the listing of the first index sub-directory is slow, in the other that of the second)
    scens.insert(0, {"id": sid("C17", "bulk", 0), "props": ["C17"], "mode": "probe", "no_create": True, "tags": ["replay", "index-subdirectories"],
                     "steps": [{"op": "bulk_history", "nfiles": 10040, "rt": "mt8", "slow": ["list_dir", "i/00000", 3000]},
                               {"op": "bulk_history", "nfiles": 10040, "rt": "mt8", "slow": ["list_dir", "i/00001", 3000]}]
                              + ([{"op": "bulk_history", "nfiles": 10040, "rt": "ct"}, {"op": "bulk_history", "nfiles": 10040, "rt": "mt2-nodrain"}] if tier != "quick" else [])})
    # slow storage: in one of the two replays one storage verb of a backup takes half a minute (a
    # minute, two minutes in the thorough tier) longer; what is written may not depend on how long
    # the run takes
    stalls = [31000] if tier == "quick" else [31000, 31000, 62000, 125000]
    for i, ms in enumerate(stalls):
        names = ["a", "b", "c", "m", "n", "z"]
        t = [node("/", "Dir")] + [node("/" + nm, "File", bytes([j + 1]) * rng.randrange(2, 6), mt=(1600008000 + j, 0)) for j, nm in enumerate(names)]
        t.insert(4, node("/big", "File", bytes([9]) * 2000, mt=(1600008100, 0)))
        o = {"H": 1000, "M": 1000, "S": 100}
        slow = bk(o, stall_block=ms)
        steps = [{"op": "new_archive", "rt": "ct"}, {"op": "tree", "tree": t}, bk(o), {"op": "archive_digest"},
                 {"op": "new_archive", "rt": "ct"}, {"op": "tree", "tree": t}, slow, {"op": "archive_digest"}]
        scens.insert(0, {"id": sid("C17", "slow", i), "props": ["C17"], "mode": "clean", "tags": ["replay", "slow-storage"], "steps": steps})
    return scens


@check("C18", "model_checking", "TLA+ spec (Diff.tla: set-theoretic difference; MC_Diff proves the lock-step merge equals it for all bounded tree pairs) + real diff() and backup change callbacks compared with the spec by TLC")
def gen_c18(tier, seed):
    rng = random.Random(seed * 1000 + 18)
    mcs = []
    cfg = "MC_Diff.cfg" if tier == "quick" else "MC_Diff_thorough.cfg"
    r = cvlib.run_tlc_model("MC_Diff.tla", cfg, timeout=1800)
    mcs.append(("MC_Diff.tla", cfg, r))
    scens = []
    n = 250 if tier == "quick" else 3000
    for i in range(n):
        t = random_tree(rng, nmax=rng.choice([4, 8, 12]), depth=3, pre_epoch=False, maxlen=5, owners=rng.random() < 0.3,
                        names=["a", "ab", "a.b", "b", "-", "é", "z", "d"], sibs=rng.choice([0.0, 0.5, 0.8]))
        o = rand_opts(rng)
        steps = [{"op": "tree", "tree": t}, bk(o), {"op": "diff", "band": -2, "include_unchanged": False},
                 {"op": "diff", "band": -2, "include_unchanged": True}]
        t2 = t
        for _ in range(rng.randrange(1, 3)):
            t2 = mut(rng, t2, maxlen=5, names=["a", "ab", "a.b", "b", "-", "é", "z", "d"],
                             mtimes=cvlib.MTIMES + [(1600000000, 1), (1600000000, 2), (1600000001, 123456788), (1600000001, 5), (1600000002, 0), (1600000002, 999999998)])
            if rng.random() < 0.3:
                # only the owner or the group changes -- to another name, or to an id that has no name
                t2 = [dict(n) for n in t2]
                v = rng.choice(t2)
                if rng.random() < 0.5:
                    v["u"] = rng.choice(["#54321", "daemon", "bin", "#61000"])
                else:
                    v["g"] = rng.choice(["#54321", "daemon", "bin", "#61000"])
            steps += [{"op": "tree", "tree": t2}, {"op": "diff", "band": -2, "include_unchanged": rng.random() < 0.5},
                      {"op": "diff", "band": 0, "include_unchanged": False}, bk(o),
                      {"op": "diff", "band": -2, "include_unchanged": False}]
        scens.append({"id": sid("C18", "d", i), "props": ["C18"], "mode": "clean", "tags": ["diff"], "steps": steps})
    # directed: sibling directories whose names extend one another with a byte below '/', each with
    # entries at the same depth; single additions / removals at the edges of one of them
    for i in range(40 if tier == "quick" else 500):
        sibs = rng.sample(["a", "a.b", "a-", "a b", "ab", "a.d", "a+", "b"], rng.randrange(2, 5))
        t = [node("/", "Dir"), node("/readme", "File", b"r")]
        for sname in sibs:
            t.append(node("/" + sname, "Dir"))
            for child in rng.sample(["10-l", "m", "old", "x"], rng.randrange(1, 3)):
                t.append(node(f"/{sname}/{child}", "File", cvlib.rand_content(rng, 4), mt=(1600000400, 0)))
        o = rand_opts(rng)
        steps = [{"op": "tree", "tree": t}, bk(o), {"op": "diff", "band": -2, "include_unchanged": False}]
        t2 = t
        for _ in range(rng.randrange(1, 4)):
            t2 = [dict(n) for n in t2]
            d = "/" + rng.choice(sibs)
            kids = sorted((n for n in t2 if len(n["p"]) == 2 and path_str(n["p"][:1]) == d), key=lambda n: bytes(n["p"][-1]))
            how = rng.choice(["add-last", "add-first", "del-last", "del-first", "touch-last"])
            if how == "add-last":
                q = d + "/zz-new"
            elif how == "add-first":
                q = d + "/!first"
            if how.startswith("add"):
                if not any(path_str(n["p"]) == q for n in t2):
                    t2.append(node(q, "File", cvlib.rand_content(rng, 4), mt=(1600000500, 0)))
            elif kids and how.startswith("del"):
                t2.remove(kids[-1] if how == "del-last" else kids[0])
            elif kids:
                kids[-1]["mt"] = [kids[-1]["mt"][0] + 17, 3]
            steps += [{"op": "tree", "tree": t2}, {"op": "diff", "band": -2, "include_unchanged": rng.random() < 0.3}, bk(o),
                      {"op": "diff", "band": -2, "include_unchanged": False}]
        scens.append({"id": sid("C18", "sib", i), "props": ["C18"], "mode": "clean", "tags": ["diff", "prefix-siblings"], "steps": steps})
    return scens, mcs


# ------------------------------------------------------------------------------------------
# C08 stitching: arrangements enumerated by TLC (spec/MC_Stitch.tla), replayed on harness-written archives

C08_PATHS = {"Paths3": ["/a", "/b", "/a/b"], "Paths4": ["/a", "/ab", "/b", "/a/b"]}


def c08_entry(path, band, hunk):
    return {"p": cvlib.comps(path), "k": "File", "mt": [1000 + band, hunk], "mode": 420, "u": "", "g": "", "a": [], "t": []}


def c08_scenario(sid_, lay, paths, ids, tags):
    bands = []
    for slot, bs in enumerate(lay):
        if bs["st"] == "absent":
            continue
        b = ids[slot]
        hunks = [{"n": bs["off"] + j, "es": [c08_entry(paths[i - 1], b, bs["off"] + j) for i in h]} for j, h in enumerate(bs["hunks"])]
        bands.append({"id": b, "head": bs["st"] not in ("nohead", "noheadtail"), "tail": bs["st"] in ("complete", "noheadtail"), "hunks": hunks})
        if bs.get("legacy") and bands[-1]["tail"]:
            # a tail as releases before 0.6.4 wrote it: no hunk count
            bands[-1]["legacy_tail"] = True
    steps = [{"op": "layout", "bands": bands, "blocks": []}]
    for bd in bands:
        if not bd["head"]:
            continue
        steps.append({"op": "list", "band": bd["id"]})
        if not bd["tail"]:
            # filters on every incomplete version: each directory-like path, a missing path, an exclusion per path
            for sub in ["/a", "/zz"]:
                steps.append({"op": "list", "band": bd["id"], "subtree": sub})
            for ex in ["/a", "b", "/b"]:
                steps.append({"op": "list", "band": bd["id"], "excl": [ex]})
    return {"id": sid_, "props": ["C08"], "mode": "clean", "no_create": True, "tags": tags, "steps": steps}


def parse_cases(out):
    cases = []
    for line in out.splitlines():
        if line.startswith('<<"CASE", "'):
            body = line[len('<<"CASE", '):-2]
            cases.append(json.loads(json.loads(body)))
    return cases


@check("C08", "model_checking", "TLA+ spec: StitchOf proved equal to a declarative statement of the rule by TLC over all bounded arrangements; every arrangement replayed on harness-written archives and the real listing compared with StitchOf by TLC")
def gen_c08(tier, seed):
    rng = random.Random(seed * 1000 + 8)
    scens = []
    mcs = []
    r = cvlib.run_tlc_model("MC_Stitch.tla", "MC_Stitch_emit.cfg", timeout=900)
    mcs.append(("MC_Stitch.tla", "MC_Stitch_emit.cfg", r))
    if not r["ok"]:
        return scens, mcs
    cases = parse_cases(r["out"])
    total = len(cases)
    if tier == "quick":
        # all arrangements are checked by TLC; a seeded sample is executed (thorough executes all)
        interesting = [c for c in cases if sum(1 for b in c if b["st"] == "incomplete" and b["hunks"]) >= 1]
        cases = rng.sample(interesting, min(2500, len(interesting))) + rng.sample(cases, min(500, len(cases)))
    for i, lay in enumerate(cases):
        if i % 3 == 2:
            # the same arrangement with old-style tails (no hunk count): complete all the same
            lay = [dict(b, legacy=True) for b in lay]
        scens.append(c08_scenario(sid("C08", "l3", i), lay, C08_PATHS["Paths3"], [0, 1, 3], ["tlc-arrangement"] + (["legacy-tail"] if i % 3 == 2 else [])))
    r2 = cvlib.run_tlc_model("MC_Stitch.tla", "MC_Stitch_off.cfg", timeout=900)
    mcs.append(("MC_Stitch.tla", "MC_Stitch_off.cfg", r2))
    if r2["ok"]:
        cases2 = parse_cases(r2["out"])
        total += len(cases2)
        if tier == "quick":
            cases2 = rng.sample(cases2, min(600, len(cases2)))
        for i, lay in enumerate(cases2):
            scens.append(c08_scenario(sid("C08", "off", i), lay, C08_PATHS["Paths3"], [0, 2], ["tlc-arrangement", "hunk-gap"]))
    if tier != "quick":
        r3 = cvlib.run_tlc_model("MC_Stitch.tla", "MC_Stitch_thorough.cfg", timeout=3000)
        mcs.append(("MC_Stitch.tla", "MC_Stitch_thorough.cfg", r3))
    # random larger arrangements (up to 6 bands, up to ~12 paths)
    names = ["a", "ab", "b", "a.b", "é", "-", "z", "0"]
    universe = ["/" + n for n in names] + ["/a/" + n for n in names[:4]] + ["/a/b/" + n for n in names[:3]] + ["/é/x", "/z/a"]
    key = lambda p: ([c.encode() for c in p.strip("/").split("/")][:-1], p.strip("/").split("/")[-1].encode())
    universe.sort(key=key)
    n = 150 if tier == "quick" else 3000
    for i in range(n):
        ids = sorted(rng.sample(range(0, 9), rng.randrange(2, 7)))
        if i % 5 == 4:
            ids = sorted(rng.sample([0, 8, 999, 1000, 9998, 9999, 10000, 10001, 100000], rng.randrange(2, 6)))
        lay = []
        for _ in ids:
            st = rng.choice(["incomplete", "incomplete", "complete", "nohead", "incomplete", "noheadtail"])
            sel = [j + 1 for j in range(len(universe)) if rng.random() < 0.45]
            if st == "incomplete" and rng.random() < 0.7:
                sel = sel[:rng.randrange(0, len(sel) + 1)]
            hunks = []
            while sel:
                k = rng.randrange(1, 4)
                hunks.append(sel[:k])
                sel = sel[k:]
            lay.append({"st": st, "hunks": hunks if st != "nohead" else [], "off": rng.choice([0, 0, 0, 1]), "legacy": i % 3 == 0 and rng.random() < 0.7})
            if st == "noheadtail":
                lay[-1]["hunks"] = hunks[:rng.randrange(0, 2)]
        s = c08_scenario(sid("C08", "rnd", i), lay, universe, ids, ["random-arrangement"])
        if i % 4 == 1:
            # an empty index hunk (legal, written by old versions) somewhere in a band
            bands = [bd for bd in s["steps"][0]["bands"] if bd["hunks"]]
            if bands:
                bd = rng.choice(bands)
                k = rng.randrange(0, len(bd["hunks"]) + 1)
                first = bd["hunks"][0]["n"]
                bd["hunks"].insert(k, {"n": 0, "es": []})
                for j, h in enumerate(bd["hunks"]):
                    h["n"] = first + j
        # richer filters for the random ones
        for bd in s["steps"][0]["bands"]:
            if bd["head"] and not bd["tail"]:
                s["steps"].append({"op": "list", "band": bd["id"], "subtree": rng.choice(["/a", "/a/b", "/é", "/z"])})
                s["steps"].append({"op": "list", "band": bd["id"], "excl": [rng.choice(["a", "/a/b", "*b", "z", "é"])]})
        scens.append(s)
    # a long chain of interrupted versions, each reaching one or two paths further than the one after
    # it (with a head-less or empty one here and there): the newest listing takes a little from each
    for i, N in enumerate([40, 25] if tier == "quick" else [40, 25, 120, 200]):
        paths = ["/p%03d" % j for j in range(2 * N + 2)]
        lay, reach = [], 2 * N
        for j in range(N):
            kind = rng.choice(["incomplete"] * 5 + ["nohead", "empty"]) if 0 < j < N - 1 else ("complete" if j == 0 and i % 2 == 0 else "incomplete")
            sel = list(range(1, reach + 1)) if kind not in ("nohead", "empty") else []
            hunks = [sel[k:k + 7] for k in range(0, len(sel), 7)]
            lay.append({"st": "incomplete" if kind == "empty" else kind, "hunks": hunks, "off": 0})
            if kind not in ("nohead", "empty"):
                reach -= rng.randrange(1, 3)
        sc = c08_scenario(sid("C08", "chain", i), lay, paths, list(range(N)), ["long-chain"])
        sc["steps"] = [sc["steps"][0]] + [{"op": "list", "band": b} for b in (N - 1, N // 2)] + [{"op": "restore", "band": N - 1}]
        scens.append(sc)
    return scens, mcs


def has_op(s, name):
    return any(st.get("op") == name for st in s["steps"])


NONTRIVIAL = {
    "C01": (nontrivial_c01, "distinct scenario digests whose tree has >= 3 nodes including a non-empty file"),
    "C02": (lambda s: sum(1 for st in s["steps"] if st["op"] == "backup") >= 2 or has_op(s, "layout"), "distinct histories with at least two backups, or arrangements of complete / interrupted / deleted versions from which the latest complete one is selected"),
    "C03": (lambda s: has_op(s, "sweep"), "distinct scenarios with a crash-point sweep (each sweep enumerates the storage verbs of the real run; counted per scenario, injected runs are reported as injections)"),
    "C04": (lambda s: has_op(s, "sweep") or any(st.get("fail_p") for st in s["steps"]), "distinct scenarios with at least one injected storage fault plan"),
    "C05": (lambda s: has_op(s, "delete") or has_op(s, "sweep"), "distinct histories ending in a delete/gc (dry, real, crash sweep or failing-read sweep)"),
    "C06": (lambda s: has_op(s, "conc_sweep"), "distinct archives x delete sets, each with a sweep over preemption-bounded schedules of the real verbs (schedules are counted in events)"),
    "C07": (lambda s: has_op(s, "conc_sweep") or sum(1 for st in s["steps"] if st["op"] == "backup") >= 2, "distinct histories with at least two backups, or backup||backup schedule sweeps"),
    "C08": (lambda s: sum(1 for b in s["steps"][0]["bands"] if b["head"] and not b["tail"]) >= 1 and len(s["steps"][0]["bands"]) >= 2,
            "distinct arrangements with at least two band directories of which at least one is an incomplete version (stitching happens)"),
    "C09": (lambda s: has_op(s, "damage_sweep") or sum(1 for st in s["steps"] if st["op"] == "validate") >= 2, "distinct archives with a damage sweep (every file x kind), or healthy histories validated at least twice"),
    "C10": (lambda s: has_op(s, "damage_sweep"), "distinct archives with a damage sweep (every file other than the header x kind + bit flips)"),
    "C11": (lambda s: has_op(s, "apath_table") or len(s["steps"][0].get("tree", [])) >= 4, "the comparator/validity table (all pairs of the exported strings) and distinct walked trees with >= 4 nodes"),
    "C12": (lambda s: has_op(s, "apath_table") or has_op(s, "sweep") or sum(1 for st in s["steps"] if st.get("subtree")) >= 3, "the ancestor table and distinct (tree, settings) cases with >= 3 subtree selections, or kill-point sweeps of a second backup each followed by subtree selections on the stitched version"),
    "C13": (lambda s: has_op(s, "backup"), "distinct histories with at least one backup"),
    "C15": (lambda s: any(st.get("excl") for st in s["steps"]), "distinct (tree, pattern set) cases"),
    "C16": (lambda s: any(n["k"] == "Symlink" for st in s["steps"] if st["op"] == "tree" for n in st["tree"]), "distinct trees containing at least one symlink, restored beside watched sentinels"),
    "C17": (lambda s: sum(1 for st in s["steps"] if st["op"] == "archive_digest") >= 2, "distinct histories replayed at least twice"),
    "C18": (lambda s: sum(1 for st in s["steps"] if st["op"] == "diff") >= 3, "distinct (tree, mutation) cases with at least three diffs"),
    "C14": (lambda s: sum(1 for st in s["steps"] if st["op"] in ("backup", "sweep")) >= 2, "distinct scenarios with a second backup over existing data"),
}

TRUST = ("Trusted: TLC; the harness's independent decoder (snap, serde_json, blake2-rfc crates) and its projection of real trees "
         "(lstat/readlink/read); the verif_hooks interceptor sits above the local transport, so the local filesystem is taken as "
         "sequentially consistent. Toy-scale options (block sizes of a few bytes) drive the same code paths as production sizes.")

# checks whose traces are also followed against the reference programs (sequential scenarios)
PROTO_PROPS = {"C01", "C02", "C03", "C04", "C05", "C13", "C14", "C15", "C18", "C12"}

MANIFEST_TEXT = {
    "C01": dict(ref="DESIGN.md 7 C01", note=TRUST,
                text="Every generated (tree, settings) case is executed by the real backup()/restore(); the trace is validated by TLC: the "
                     "restored tree must equal the source projection and RestoreOf(decoded archive), with no error. The specification's "
                     "reference backup program is model-checked exhaustively on bounded trees x settings. Concrete value generators cover all "
                     "4096 modes, pre/post-epoch and nanosecond mtimes, named owners, names around '/', sizes around both thresholds, prefix-named "
                     "sibling directories, hundreds of entries, and 'big' scenarios (contents of 100 B - 2.5 MB with zero runs, production-shape "
                     "settings incl. the defaults; contents logged as length+digest)."),
    "C02": dict(ref="DESIGN.md 7 C02", note=TRUST,
                text="Random operation histories (mutations, backups with varying settings, interrupted backups, deletes, gcs) run on the real "
                     "code; after every step every surviving version and the latest complete one are restored and TLC compares them with the "
                     "snapshot ghost and RestoreOf; SnapRestores is additionally evaluated in every intermediate storage state. Version selection "
                     "('latest complete') is also judged on harness-written arrangements of complete / interrupted / head-less / deleted versions "
                     "with id gaps and five-digit ids."),
    "C03": dict(ref="DESIGN.md 7 C03", note=TRUST + " Crash granularity is the storage verb plus the empty-file state.",
                text="For each scenario the storage-verb trace of the real backup is enumerated: stop before every verb k (and for writes also "
                     "after creating an empty file); on each frozen archive versions/list/restore/validate and a follow-up backup are run and "
                     "judged by TLC against StitchOf/RestoreOf/snapshots; NoDangling, Format and SnapRestores hold in every intermediate state. Runs "
                     "ended by a failing verb instead of a kill are swept too; what a stopped backup recorded must be a prefix of what it was recording."),
    "C04": dict(ref="DESIGN.md 7 C04", note=TRUST + " A failing verb has no effect (fails before).",
                text="Every single failing storage verb x {NotFound, AlreadyExists, PermissionDenied, Other} of real backups, plus random "
                     "multi-fault runs; TLC judges every trace: no panic, earlier versions intact, every recorded file entry restores to the "
                     "source bytes, nothing dangling, complete success implies exact restore. Archives include ones whose newest version is interrupted and "
                     "ones where the new blocks belong in d/xyz directories that already hold older blocks."),
    "C05": dict(ref="DESIGN.md 7 C05", note=TRUST + " remove_dir_all is one verb for the hook.",
                text="Archives from random and directed histories (shared combined blocks, incomplete bands, garbage) x delete sets x "
                     "{dry, real, crash at every verb, every failing read/list/metadata verb}; TLC judges per-verb (gc removes only requested "
                     "bands, unreferenced blocks, its lock) and at return (exactly the requested bands gone, present blocks = referenced). Archives include "
                     "versions with old-style tails (no hunk count), kills inside the recursive removal of a version, and versions whose unshared "
                     "blocks share d/xyz directories with blocks that must stay."),
    "C06": dict(ref="DESIGN.md 7 C06", note=TRUST + " The scheduler serialises storage verbs of the two actors (one verb at a time), i.e. the storage is sequentially consistent.",
                text="Interlock.tla models backup and gc/delete at storage-verb granularity; TLC explores every interleaving (no preemption bound) "
                     "and proves NoLoss for the protocol the code follows (and refutes it for the protocol without the second lock check). On the "
                     "real code the two operations run on separate threads under a deterministic scheduler; schedules with up to 2-3 preemptions "
                     "placed at verbs on shared keys are enumerated/sampled over archives whose garbage content reappears in the new source; every "
                     "merged trace is validated by TLC (no complete version dangles at quiescence, every complete version restores). In addition every "
                     "schedule with up to 3 preemptions (quick: an even spread of them) is first run with the log muted and screened with the "
                     "harness's decoder; suspicious ones are executed again with full logging and judged by TLC."),
    "C07": dict(ref="DESIGN.md 7 C07", note=TRUST,
                text="Every mutating verb of every real trace is judged against the write-once contract of Storage.tla (create-new must refuse a "
                     "non-empty file; backup never overwrites, removes, or reuses a band id; gc removes only requested bands, unreferenced blocks, "
                     "its lock; readers never mutate). The race of two backups is model-checked in Interlock.tla and replayed under the scheduler: "
                     "one winner per band, the loser never writes under the winner's head. Two racing gcs are model-checked (Interlock with two "
                     "gcs) and scheduled: a delete removes only its own lock. Second backups over an existing archive are also made to fail at every "
                     "write / create_dir and killed at every point (new blocks sharing d/xyz directories with old ones): nothing is removed or rewritten."),
    "C08": dict(ref="DESIGN.md 7 C08", note=TRUST + " Archives for this check are written by the harness's own encoder.",
                text="MC_Stitch.tla: TLC enumerates ALL arrangements of up to 3 band slots (absent / head-less / incomplete / complete, ids with "
                     "gaps) x all hunk layouts of subsets of an order-exercising path alphabet and proves StitchOf equal to a declarative statement "
                     "of the rule, strictly increasing, duplicate-free, with correct provenance. The arrangements are written as real archives and "
                     "the real iter_entries (every N, subtree and exclusion filters) is compared with Listing() by TLC; a third of the arrangements carry "
                     "old-style tails (no hunk count), which are complete all the same."),
    "C09": dict(ref="DESIGN.md 7 C09", note=TRUST + " Whether damage 'matters' is decided by the specification (RestoreOf before vs after the damage), and silence is excused only when the damaged archive is itself a state fault-free operation can produce (Format.tla).",
                text="Healthy side: every archive state reached by random histories (interrupted-with-header backups, deletes, gcs) is "
                     "validated full and quick and must be silent. Damage side: every archive file (header, heads, hunks, blocks) x {delete, "
                     "truncate 0, truncate half, garbage} plus bit flips; TLC decides from the decoded states whether some version no longer "
                     "restores exactly and then requires validate to report."),
    "C10": dict(ref="DESIGN.md 7 C10", note=TRUST + " A bit flip that leaves a hunk decodable is only required not to crash or hang.",
                text="Every archive file other than the header x {delete, truncate 0, truncate half, garbage} plus bit flips, each followed by "
                     "versions, ls and restore of every band, validate (full, quick), a new backup and its restore, under panic capture and a "
                     "time-out; bit flips include 'smart' ones (all single-bit flips of a hunk/head/tail after which it still decodes differently, "
                     "one per kind of difference). TLC judges containment from the decoded healthy and damaged states: untouched files restore exactly in versions "
                     "that open; files whose hunk or block is the damaged file are reported (per file for blocks); after delete/empty a new backup "
                     "completes and restores exactly."),
    "C11": dict(ref="DESIGN.md 7 C11", note=TRUST,
                text="Apath.tla states the documented order and validity rule independently; TLC checks irreflexive/asymmetric/total/transitive "
                     "over all triples, children-before-grandchildren, contiguity of everything below a directory, parent-first, on all paths of "
                     "bounded depth over an alphabet with bytes below and above '/', multi-byte names and shared prefixes. The real Apath::cmp on "
                     "ALL pairs of those paths, is_valid / FromStr / From<&str> on well- and ill-formed strings, and the order of the real source "
                     "walk and of every written index (also while the source changes under the backup) are compared with the spec by TLC."),
    "C12": dict(ref="DESIGN.md 7 C12", note=TRUST,
                text="The real is_prefix_of on all pairs of the C11 path set against IsAncestorOrSelf; real subtree listings (S over existing "
                     "dirs, files, textual siblings, missing paths) and subtree restores (S over directories), on complete and stitched versions "
                     "with small hunks, compared by TLC with Listing()/RestoreOf restricted to S."),
    "C15": dict(ref="DESIGN.md 7 C15", note=TRUST + " Whether a path matches a base pattern is a fact computed with the globset crate directly (anchoring per the documented rule); glob semantics themselves are not modelled.",
                text="MC_Exclude.tla proves, for all bounded trees and ALL match relations, that pruning during the walk, per-entry filtering "
                     "on read and the documented meaning ('omitted iff it or an ancestor below the root matches') coincide. On the real code, "
                     "backup(exclude=E), list(exclude=E) and restore(exclude=E) of a full backup, and the source walk, are each compared by TLC "
                     "with Excluded() evaluated on logged match facts."),
    "C16": dict(ref="DESIGN.md 7 C16", note=TRUST + " The sandbox runs as root, so an escaping chmod/chown/utimes would succeed and be seen.",
                text="Trees with symlinks pointing at sentinel files and directories beside the destination (absolute, '..', through another "
                     "link, dangling), with varied link owners; restores into fresh, absent and pre-populated destinations, with subtree and "
                     "exclusion selections. A recursive lstat + content digest of everything outside the destination is taken before and after; "
                     "TLC judges 'outside unchanged' and 'non-empty destination refused and untouched' (the destination holding a file, a symlink to a "
                     "sentinel or dangling, a fifo, an empty directory or file, under its own name, a name of the version, a hidden or undecodable name)."),
    "C17": dict(ref="DESIGN.md 7 C17", note=TRUST + " Byte identity is a harness fact (masking start_time/end_time); the specification contributes the decoded-state comparison and the history set.",
                text="Each history (backups with varying settings, interrupted backups, deletes, gcs) is replayed into two (thorough: three) "
                     "fresh archives under different tokio runtime flavours (current_thread, multi_thread with 1, 2, 8 workers); the archive "
                     "trees are compared byte for byte and the decoded states compared by TLC. Replays also differ in start time and in how long one "
                     "storage operation takes (31 s; thorough up to 125 s)."),
    "C18": dict(ref="DESIGN.md 7 C18", note=TRUST,
                text="Diff.tla defines the set-theoretic difference with the classification of change.rs; MC_Diff proves the lock-step merge "
                     "equals it (and is path-ordered) for all bounded tree pairs. Real diff() streams (with and without include_unchanged, "
                     "against the latest and an older version) and the next backup's change callbacks are compared with SetDiff / "
                     "CallbackExpected by TLC over generated trees and mutation sets."),
    "C13": dict(ref="DESIGN.md 7 C13", note=TRUST,
                text="doc/format.md is the predicate FormatViol in spec/Format.tla; TLC evaluates it after every mutating storage verb of "
                     "every trace (histories x settings hitting hunk and block boundaries, interrupted backups), on payloads decoded by the "
                     "harness's own reader, never by conserve; sources changing under the backup; hunk placement beyond 10 000 hunks judged on a real "
                     "10 050-hunk backup and on harness-written archives."),
    "C14": dict(ref="DESIGN.md 7 C14", note=TRUST,
                text="Block writes of real runs are the observation: TLC rejects any write to an existing non-empty path, requires that files "
                     "unchanged against the (stitched) basis reuse its addresses, that an unchanged tree writes no block, and that "
                     "stats.written_blocks equals the observed count; resume is checked after every crash point of the interrupted run, and of the second "
                     "of two interrupted runs in a row."),
}
NOT_APPLICABLE = {}

# Exhaustive model configs run by every check of the property (module, config, timeout s).
# Conserve.tla = the reference programs of backup and delete/gc with kills, faults, mutation.
_CRASH = ("MC_Conserve.tla", "MC_Conserve_crash.cfg", 900)
_FAULT = ("MC_Conserve.tla", "MC_Conserve_fault.cfg", 900)
_C01 = ("MC_Conserve.tla", "MC_Conserve_c01.cfg", 600)
_CRASH_T = ("MC_Conserve.tla", "MC_Conserve_thorough.cfg", 3000)
_DEEP = ("MC_Conserve.tla", "MC_Conserve_deep.cfg", 3000)
# everything at once (3 trees, 3 settings, 5 backups, 3 deletes, kills, 2 faults, concurrency): random behaviours
_SIM = ("MC_Conserve.tla", "MC_Conserve_sim.cfg", 1800, ("-simulate", "num=40000", "-depth", "300"))
_FAULT_T = ("MC_Conserve.tla", "MC_Conserve_fault_thorough.cfg", 3000)
# kills inside the (non-atomic) recursive removal of a version's directory, delete --break-lock afterwards
_TORN = ("MC_Conserve.tla", "MC_Conserve_torn.cfg", 3000)
MODELS = {
    "C01": {"quick": [_C01, ("Restore.tla", "Restore_repo.cfg", 300)], "thorough": [_C01, _CRASH_T, ("Restore.tla", "Restore_repo.cfg", 300)]},
    "C02": {"quick": [_CRASH], "thorough": [_CRASH_T, _DEEP, _SIM]},
    "C03": {"quick": [_CRASH], "thorough": [_CRASH_T, _DEEP]},
    "C04": {"quick": [_FAULT], "thorough": [_FAULT_T]},
    "C05": {"quick": [_CRASH, _FAULT], "thorough": [_CRASH_T, _FAULT_T, _TORN, _SIM]},
    "C13": {"quick": [_CRASH], "thorough": [_CRASH_T, _FAULT_T]},
    "C14": {"quick": [_CRASH], "thorough": [_CRASH_T]},
    "C06": {"quick": [("MC_Conserve.tla", "MC_Conserve_conc.cfg", 1200)], "thorough": [("MC_Conserve.tla", "MC_Conserve_conc.cfg", 1200), _SIM]},
    "C07": {"quick": [_CRASH], "thorough": [_CRASH_T]},
    "C16": {"quick": [("Restore.tla", "Restore_repo.cfg", 300)], "thorough": [("Restore.tla", "Restore_repo.cfg", 300)]},
    "C09": {"quick": [("MC_Conserve.tla", "MC_Conserve_validate.cfg", 1800)], "thorough": [("MC_Conserve.tla", "MC_Conserve_validate.cfg", 1800), _CRASH]},
    "C10": {"quick": [_FAULT], "thorough": [_FAULT]},
}


# Scenario families of other checks, executed by every check and judged with ITS monitors: a
# property's monitors see more shapes than its own generator makes (round 4: the C03 change was
# raised at once by C13's scenarios, whose monitors include NoDangling in every state, while C03's
# own generator did not reach it).
POOL_SOURCES = ["C01", "C02", "C13", "C14", "C16", "C17"]
POOL_PROPS = {"C01", "C02", "C03", "C04", "C05", "C07", "C09", "C10", "C13", "C14", "C16", "C17"}


def common_pool(prop, tier, seed):
    if prop not in POOL_PROPS:
        return []
    rng = random.Random(seed * 77 + 5)
    out = []
    for src in POOL_SOURCES:
        if src == prop:
            continue
        g = CHECKS[src]["gen"](tier, seed)
        scens = g[0] if isinstance(g, tuple) else g
        light = [x for x in scens if not any(st.get("op") in ("sweep", "conc_sweep", "damage_sweep", "bulk_probe") for st in x["steps"])]
        for x in rng.sample(light, min(len(light), 10 if tier == "quick" else 60)):
            y = dict(x)
            y["id"] = "POOL-" + x["id"]
            y["tags"] = list(x.get("tags", [])) + ["pool"]
            if x.get("mode", "clean") in ("clean", "big") and not any(st.get("op") in ("new_archive", "outside", "layout") for st in x["steps"]):
                # every observation at the end, so that whichever property's monitors judge it have something to judge
                y["steps"] = list(x["steps"]) + [{"op": "versions"}, {"op": "list_all"}, {"op": "restore_all", "latest": True},
                                                 {"op": "validate", "quick": False}, {"op": "validate", "quick": True}]
            out.append(y)
    return out


def run_check(prop, tier, seed, t0, keep=False):
    spec = CHECKS[prop]
    gen_out = spec["gen"](tier, seed)
    mc = []
    if isinstance(gen_out, tuple):
        scens, mc = gen_out
        for (module, cfg, r) in mc:
            if not r["ok"]:
                print(r["out"][-3000:])
                raise cvlib.ToolError(f"model config {cfg} did not pass: the specification itself violates a theorem or timed out")
            print(f"[check {prop}] model {cfg}: {r['states']} distinct states, {r['transitions']} generated, {r['wall']:.0f}s")
    else:
        scens = gen_out
    own = len(scens)
    scens = [cvlib.odd_umask(cvlib.odd_source(cvlib.age_scenario(cvlib.fix_scenario(x)))) for x in scens + common_pool(prop, tier, seed)]
    by_id = {s["id"]: s for s in scens}
    mc = list(mc)
    for entry in MODELS.get(prop, {}).get(tier, []):
        module, cfg, tmo = entry[:3]
        r = cvlib.run_tlc_model(module, cfg, timeout=tmo, extra=list(entry[3]) if len(entry) > 3 else None)
        mc.append((module, cfg, r))
        if not r["ok"]:
            print(r["out"][-3000:])
            raise cvlib.ToolError(f"model config {cfg} did not pass: the specification itself violates a monitor or timed out")
        print(f"[check {prop}] model {cfg}: {r['states']} distinct states, {r['transitions']} generated, {r['wall']:.0f}s")
    proto = prop in PROTO_PROPS
    res = cvlib.run_and_validate(scens, keep=keep, proto=proto)
    print(f"[check {prop}] {len(scens)} scenarios executed in {res['wall_h']:.1f}s, {res['events']} events validated by TLC in {res['wall_t']:.1f}s")
    if proto:
        print(f"[check {prop}] protocol conformance: {res['proto_calls']} real backup/delete calls followed against the reference programs of Conserve.tla in {res['wall_p']:.1f}s ({res['proto_faults']} injected write failures taken along), {len(res['drift'])} drift records")
        seen = set()
        for d in res["drift"]:
            key = (d[1], d[3])
            if key not in seen and len(seen) < 5:
                seen.add(key)
                print(f"SPEC-DRIFT property={prop} scenario={d[0]} event={d[2]} {d[1]} {d[3]}: the real mutation sequence is not the reference program's; "
                      "the exhaustive TLC results for Conserve.tla no longer transfer automatically (not a property violation)")
    nviol, lines, other = cvlib.judge(prop, res, by_id, tier, seed)
    for ln in lines:
        print(ln)
    if other:
        print(f"[check {prop}] monitors of other properties that fired (not judged here): {other}")
    fn, rule = NONTRIVIAL.get(prop, (lambda s: True, "distinct scenario digests"))
    digests = {cvlib.scen_digest(s) for s in scens[:own] if fn(s)}
    states = sum(r["states"] for _, _, r in mc)
    trans = sum(r["transitions"] for _, _, r in mc)
    cov = {
        "evaluations": len(scens),
        "own_scenarios": own,
        "pool_scenarios_from_other_checks": len(scens) - own,
        "distinct_nontrivial": len(digests),
        "rule": rule,
        "samples": [json.loads(cvlib.brief(s, 1500)) if len(json.dumps(s)) <= 1500 else {"id": s["id"], "steps": [st.get("op") for st in s["steps"]], "truncated": cvlib.brief(s, 600)} for s in scens[:2]],
        "traces_validated_against_impl": len(scens),
        "events_validated": res["events"],
        "exhaustive": False,
        "model_configs": [{"config": cfg, "distinct_states": r["states"], "states_generated": r["transitions"], "wall_s": round(r["wall"], 1),
                           "exhaustive": not r.get("simulated", False), **({"random_behaviours": r["traces"]} if r.get("simulated") else {})} for _, cfg, r in mc],
        "other_monitors_fired": other,
    }
    if res["sweep"]["injections"]:
        cov["injections_executed_and_judged"] = res["sweep"]["injections"]
    if res["sweep"]["screened"]:
        cov["schedules_screened_by_harness_decoder"] = res["sweep"]["screened"]
        cov["screened_schedules_found_suspicious_and_replayed_for_tlc"] = res["sweep"]["hot"]
        print(f"[check {prop}] schedule search: {res['sweep']['screened']} schedules with <= 3 preemptions screened with the log muted, "
              f"{res['sweep']['hot']} looked suspicious and were executed again for TLC")
    if proto:
        cov["protocol_calls_followed"] = res["proto_calls"]
        cov["protocol_drift_records"] = len(res["drift"])
        cov["protocol_injected_failures_followed"] = res["proto_faults"]
    if states:
        cov["states"] = states
        cov["transitions"] = trans
    cvlib.write_evidence(prop, tier, seed, spec["level"], cov, time.time() - t0, nviol,
                         ["harness decoder (snap, serde_json, blake2-rfc crates) is the trusted reader of the format",
                          "local filesystem transport only", "toy-scale options (block sizes of a few bytes) exercise the same code paths as production sizes"])
    return 1 if nviol else 0


def replay(prop, path, tier, seed):
    body = json.load(open(path))
    s = body["scenario"]
    res = cvlib.run_and_validate([s], nshards=1)
    nviol, lines, other = cvlib.judge(prop, res, {s["id"]: s}, tier, seed, replay_dir=os.path.join(cvlib.VERIF, "work", "replays"))
    for ln in lines:
        print(ln)
    print(f"[replay {prop}] {res['events']} events; violations={nviol}; raw={res['viol'][:10]}")
    return 1 if nviol else 0


# ------------------------------------------------------------------------------------------
# ./check selftest : the specification is not vacuous -- every protocol mutant must be refuted by
# TLC, every repository-protocol config must pass

SPEC_MUTANTS = [
    ("MC_Interlock.tla", "Interlock_mutant_norecheck.cfg", "NoLoss"),
    ("MC_Interlock.tla", "Interlock_mutant_nocreatenew.cfg", "NoMixing"),
    ("MC_Interlock.tla", "Interlock_mutant_loserremoves.cfg", "HoldsImpliesLock"),
    ("MC_Conserve.tla", "MC_Conserve_mutant_combiner.cfg", "Inv_"),
    ("MC_Conserve.tla", "MC_Conserve_mutant_gcskip.cfg", "Inv_"),
    ("MC_Conserve.tla", "MC_Conserve_mutant_blocksfirst.cfg", "Inv_"),
    ("MC_Conserve.tla", "MC_Conserve_mutant_nocount.cfg", "Inv_Format"),
    ("MC_Conserve.tla", "MC_Conserve_mutant_conc_norecheck.cfg", "Inv_"),
    ("MC_Conserve.tla", "MC_Conserve_mutant_conc_headless.cfg", "Inv_"),
    ("MC_Conserve.tla", "MC_Conserve_mutant_silenthunks.cfg", "Inv_ValidateAdequate"),
    ("Restore.tla", "Restore_mutant_modefirst.cfg", "Inv_MetadataExact"),
    ("Restore.tla", "Restore_mutant_chownfollows.cfg", "Inv_OutsideUntouched"),
    ("Restore.tla", "Restore_mutant_timesfollow.cfg", "Inv_OutsideUntouched"),
    ("Restore.tla", "Restore_mutant_emptiness.cfg", "Inv_RefusesNonEmpty"),
]
SPEC_GOOD = [
    ("MC_Interlock.tla", "Interlock_repo.cfg"), ("MC_Interlock.tla", "Interlock_race_repo.cfg"), ("MC_Interlock.tla", "Interlock_gcrace_repo.cfg"),
    ("MC_Conserve.tla", "MC_Conserve_c01.cfg"), ("MC_Conserve.tla", "MC_Conserve_fault.cfg"),
    ("Restore.tla", "Restore_repo.cfg"), ("MC_Exclude.tla", "MC_Exclude.cfg"), ("MC_Diff.tla", "MC_Diff.cfg"),
]


# behaviour outside the listed properties that the model exhibits (documented in observations/README.md):
# the config is expected to be refuted; if it ever passes, the note is out of date
SPEC_OBSERVATIONS = [
    ("MC_Interlock.tla", "Interlock_three.cfg", "NoLoss"),
]


def selftest():
    bad = 0
    for module, cfg, inv in SPEC_OBSERVATIONS:
        r = cvlib.run_tlc_model(module, cfg, timeout=900)
        seen = (not r["ok"]) and ("is violated" in r["out"]) and (inv in r["out"])
        print(f"[selftest] observation {cfg}: {'exhibited by the model (' + inv + ')' if seen else 'NOT exhibited: observations/README.md is out of date'}")
        bad += 0 if seen else 1
    for module, cfg, inv in SPEC_MUTANTS:
        r = cvlib.run_tlc_model(module, cfg, timeout=900)
        refuted = (not r["ok"]) and ("is violated" in r["out"]) and (inv in r["out"])
        print(f"[selftest] mutant {cfg}: {'refuted (' + inv + ')' if refuted else 'NOT REFUTED'}")
        bad += 0 if refuted else 1
    for module, cfg in SPEC_GOOD:
        r = cvlib.run_tlc_model(module, cfg, timeout=900)
        print(f"[selftest] {cfg}: {'passes, ' + str(r['states']) + ' distinct states' if r['ok'] else 'FAILS'}")
        bad += 0 if r["ok"] else 1
    print("[selftest] " + ("ok" if bad == 0 else f"{bad} problems"))
    return 0 if bad == 0 else 2
