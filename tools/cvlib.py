"""Shared machinery of the conserve verification checks: building the harness, generating
scenarios, running them against the real code, validating the recorded traces with TLC against
spec/Trace.tla, mapping broken monitors to properties, known findings, evidence files."""

import hashlib
import json
import os
import random
import re
import shutil
import subprocess
import sys
import tempfile
import time
from concurrent.futures import ThreadPoolExecutor

VERIF = os.path.dirname(os.path.dirname(os.path.abspath(__file__)))
SPEC = os.path.join(VERIF, "spec")
# The registered checks always judge /repo. VERIF_REPO=<worktree> (a developer convenience, used to
# try seeded changes in scratch worktrees without touching /repo) builds a private copy of the
# harness against that tree; evidence and replays then go to work/alt/ instead of /verif/evidence.
REPO = os.path.realpath(os.environ.get("VERIF_REPO", "/repo"))
ALT = REPO != "/repo"
HARNESS_SRC = os.path.join(VERIF, "harness")
HARNESS = HARNESS_SRC if not ALT else os.path.join("/tmp", "cvh-" + hashlib.sha1(REPO.encode()).hexdigest()[:10])
HBIN = os.path.join(HARNESS, "target", "debug", "cvharness")
OUTDIR = VERIF if not ALT else os.path.join(VERIF, "work", "alt", os.path.basename(REPO))
NCPU = min(16, os.cpu_count() or 4)


class ToolError(Exception):
    pass


# ------------------------------------------------------------------------------------------
# building

def build_harness():
    """Rebuild the harness against /repo's current working tree (hooks enabled)."""
    t0 = time.time()
    if ALT:
        os.makedirs(os.path.join(HARNESS, ".cargo"), exist_ok=True)
        if os.path.isdir(os.path.join(HARNESS, "src")):
            shutil.rmtree(os.path.join(HARNESS, "src"))
        shutil.copytree(os.path.join(HARNESS_SRC, "src"), os.path.join(HARNESS, "src"))
        shutil.copyfile(os.path.join(HARNESS_SRC, ".cargo", "config.toml"), os.path.join(HARNESS, ".cargo", "config.toml"))
        toml = open(os.path.join(HARNESS_SRC, "Cargo.toml")).read().replace('path = "/repo"', 'path = "%s"' % REPO)
        with open(os.path.join(HARNESS, "Cargo.toml"), "w") as f:
            f.write(toml)
    try:
        shutil.copyfile(os.path.join(REPO, "Cargo.lock"), os.path.join(HARNESS, "Cargo.lock"))
    except OSError:
        pass
    p = subprocess.run(["cargo", "build", "--offline"], cwd=HARNESS, stdout=subprocess.PIPE,
                       stderr=subprocess.STDOUT, text=True)
    if p.returncode != 0:
        sys.stdout.write(p.stdout[-6000:])
        raise ToolError("harness build failed (does /repo compile with --features verif_hooks?)")
    return time.time() - t0


# ------------------------------------------------------------------------------------------
# trees

def comps(path):
    if path == "/":
        return []
    return [list(c.encode("utf-8")) for c in path.strip("/").split("/")]


def node(path, kind, content=b"", target=b"", mt=(1600000000, 0), mode=None, u="root", g="root", cg=None):
    if mode is None:
        mode = {"File": 0o644, "Dir": 0o755, "Symlink": 0o777, "Fifo": 0o644}[kind]
    if isinstance(content, str):
        content = content.encode()
    if isinstance(target, str):
        target = target.encode()
    d = {"p": comps(path), "k": kind, "c": list(content), "t": list(target), "mt": list(mt),
         "mode": mode, "u": u, "g": g}
    if cg:
        # content given as pieces [kind, n, x]: "z" zeros, "b" n bytes of value x, "r" n random bytes (seed x)
        d["cg"] = [list(x) for x in cg]
    return d


BIG_SIZES = [100, 4095, 4096, 4097, 8192, 10000, 16384, 20000, 65536, 100000, 204800, 300001]


def big_content(rng):
    """Pieces of a large content: zeros, runs of one byte, random bytes, in the arrangements where
    a program may treat a region specially (all zeros; zero tail; zero head; zero run in the middle)."""
    n = rng.choice(BIG_SIZES)
    m = rng.choice(BIG_SIZES)
    if rng.random() < 0.08:
        n = rng.choice([1 << 20, (1 << 20) + 1, 2500000])   # around the default small-file cap
    s = rng.randrange(1, 1000)
    return rng.choice([
        [["z", n, 0]], [["r", n, s]], [["r", n, s], ["z", m, 0]], [["z", n, 0], ["r", m, s]],
        [["r", n, s], ["z", m, 0], ["r", 17, s + 1]], [["b", n, 255]], [["b", n, 32], ["z", m, 0]],
        [["r", 3, s], ["z", m, 0]], [["z", m, 0], ["b", 1, 1]], [["r", n, s], ["r", m, s]]])


def big_tree(rng, nfiles=None):
    t = [node("/", "Dir"), node("/d", "Dir")]
    for i in range(nfiles or rng.randrange(2, 7)):
        p = rng.choice(["/", "/d/"]) + "f%02d" % i
        t.append(node(p, "File", cg=big_content(rng), mt=(1600000000 + i, rng.choice([0, 7]))))
    if rng.random() < 0.5:
        t.append(node("/tiny", "File", b"x"))
    return t


BIG_SETTINGS = [{"H": 100000, "M": 20 << 20, "S": 1 << 20},   # BackupOptions::default()
                {"H": 1000, "M": 1 << 20, "S": 100000}, {"H": 1000, "M": 16384, "S": 1000}, {"H": 3, "M": 4096, "S": 0},
                {"H": 1000, "M": 65536, "S": 10000}, {"H": 1000, "M": 8192, "S": 8192}, {"H": 2, "M": 20000, "S": 300001}]


def path_str(p):
    return "/" + "/".join(bytes(c).decode("utf-8", "replace") for c in p)


NAMES = ["a", "b", "ab", "a.b", "a-b", "-x", " s", ".h", "é", "éa", "z", "A", "~t", "b0", "d", "e", "0",
         # characters that need escaping in JSON, glob metacharacters, a control byte, a non-BMP character
         'q"t', "b\\s", "n\nl", "[x]*", "\x01c", "\U0001F600",
         # the name of a cache-directory tag (only one with the 43-byte signature as content makes a directory a cache)
         "CACHEDIR.TAG"]
MTIMES = [(1600000000, 0), (1600000001, 123456789), (1600000002, 999999999), (0, 0), (0, 1),
          (-1, 0), (-2, 500000000), (-86400, 250000000), (2000000000, 5), (1, 0),
          # beyond 2^31 and 2^32 seconds, beyond what fits in 64-bit nanoseconds (year 2262), near the file system's limit
          (4000000000, 0), (4294967296, 1), (9300000000, 0), (15000000000, 999999999)]
OWNERS = [("root", "root"), ("daemon", "daemon"), ("root", "daemon"), ("bin", "bin"), ("nobody", "nogroup"),
          ("root", "root"), ("root", "root")]


def rand_content(rng, maxlen=12):
    n = rng.choice([0, 1, 1, 2, 2, 3, 4, 5, 6, 8, maxlen])
    n = min(n, maxlen)
    return bytes(rng.choice([1, 2, 3, 120]) for _ in range(n))


# Contents beyond toy scale: prefixes (and near-prefixes) of a few shared base strings, 40-260
# bytes, so that files are duplicates / prefixes / extensions of one another at sizes where code
# may switch strategy (thresholds written into the program rather than taken from the options).
BASES = [bytes((i * 7 + j * 13) % 251 + 1 for i in range(640)) for j in range(3)]


def prefix_content(rng, bases=None):
    b = rng.choice(bases or BASES)
    n = rng.choice([40, 64, 65, 70, 96, 100, 128, 129, 150, 200, 256, 257, 260, 300, 400, 600])
    c = b[:n]
    if rng.random() < 0.15:
        c = c[:-1] + bytes([(c[-1] % 250) + 2])
    return c


def prefix_family_tree(rng, nfiles=None, dirs=("",)):
    """A tree of files whose contents are prefixes of a few shared strings (see BASES)."""
    t = [node("/", "Dir")]
    for d in dirs:
        if d:
            t.append(node("/" + d, "Dir"))
    k = nfiles or rng.randrange(4, 15)
    # often all from one or two bases, so that several files are prefixes of the same longer ones
    bases = rng.sample(BASES, rng.choice([1, 1, 2, 3]))
    used = set()
    for i in range(k):
        d = rng.choice(dirs)
        nm = rng.choice(["a", "b", "c", "d", "e", "f", "g", "h", "r", "s", "t", "w"]) + str(rng.randrange(0, 4))
        p = ("/" + d if d else "") + "/" + nm
        if p in used:
            continue
        used.add(p)
        t.append(node(p, "File", prefix_content(rng, bases), mt=(1600000000 + i, rng.choice([0, 5]))))
    return t


# Sibling directories whose names extend one another with a byte that sorts below '/': byte-wise
# comparison of whole path strings and the documented component-wise order disagree on them.
SIB_SUFFIXES = [".d", "-x", " y", ".b", "+", ","]


def add_prefix_siblings(rng, nodes, p=0.3, content=None):
    """For some directories of a tree add a sibling directory named <name><suffix> holding a file,
    and make sure the directory itself holds one too (so both have entries at the same depth)."""
    used = {path_str(n["p"]) for n in nodes}
    out = list(nodes)
    for n in list(nodes):
        if n["k"] != "Dir" or not n["p"] or rng.random() >= p:
            continue
        base = path_str(n["p"])
        sib = base + rng.choice(SIB_SUFFIXES)
        if sib in used:
            continue
        used.add(sib)
        out.append(node(sib, "Dir"))
        for parent in (base, sib):
            ch = parent + "/" + rng.choice(["m", "x", "10-l", "zz"])
            if ch not in used:
                used.add(ch)
                out.append(node(ch, "File", content if content is not None else rand_content(rng, 6),
                                mt=(1600000200 + len(out), 0)))
    return out


def random_tree(rng, nmax=8, depth=3, names=NAMES, mtimes=MTIMES, modes="simple", owners=False,
                symlinks=True, maxlen=12, pre_epoch=True, sibs=0.0):
    """A random source tree: list of nodes, root first. Every directory is listed."""
    if not pre_epoch:
        mtimes = [m for m in mtimes if m[0] > 0]

    def mode_of(kind):
        if kind == "Symlink":
            return 0o777
        if modes == "all":
            return rng.randrange(0o10000)
        if modes == "nosuid":
            return rng.randrange(0o1000) | (rng.choice([0, 0o1000]) if kind == "Dir" else 0)
        return rng.choice([0o644, 0o600, 0o755, 0o444] if kind == "File" else [0o755, 0o700, 0o750])

    def own():
        return rng.choice(OWNERS) if owners else ("root", "root")

    u, g = own()
    nodes = [node("/", "Dir", mt=rng.choice(mtimes), mode=mode_of("Dir"), u=u, g=g)]
    dirs = [("/", 0)]
    used = {"/"}
    n = rng.randrange(0, nmax + 1)
    for _ in range(n):
        parent, d = rng.choice(dirs)
        name = rng.choice(names)
        path = (parent.rstrip("/") + "/" + name)
        if path in used:
            continue
        used.add(path)
        kinds = ["File"] * 5 + (["Dir"] * 3 if d + 1 < depth else []) + (["Symlink"] if symlinks else [])
        kind = rng.choice(kinds)
        u, g = own()
        if kind == "Dir":
            nodes.append(node(path, "Dir", mt=rng.choice(mtimes), mode=mode_of("Dir"), u=u, g=g))
            dirs.append((path, d + 1))
        elif kind == "File":
            nodes.append(node(path, "File", rand_content(rng, maxlen), mt=rng.choice(mtimes), mode=mode_of("File"), u=u, g=g))
        else:
            nodes.append(node(path, "Symlink", target=rng.choice(["a", "../x", "/nonexistent/t", "d", "é"]),
                              mt=rng.choice(mtimes), u=u, g=g))
    if sibs:
        nodes = add_prefix_siblings(rng, nodes, p=sibs)
    return nodes


def tree_paths(tree):
    return [path_str(n["p"]) if n["p"] else "/" for n in tree]


def mutate_tree(rng, tree, names=NAMES, mtimes=MTIMES, maxlen=12, nmut=None):
    """A mutated copy of a tree: add/modify/remove/rename files, dirs, symlinks; chmod; touch;
    replace file by dir and back. A content change always comes with a new mtime (the statement
    of C02 excludes same-size same-mtime changes)."""
    t = [dict(n) for n in tree]
    mt_pool = [m for m in mtimes if m[0] > 0]
    for _ in range(nmut if nmut is not None else rng.randrange(1, 4)):
        idx = {path_str(n["p"]) if n["p"] else "/": i for i, n in enumerate(t)}
        files = [n for n in t if n["k"] == "File"]
        dirs = [n for n in t if n["k"] == "Dir"]
        nonroot = [n for n in t if n["p"]]
        op = rng.choice(["add", "add", "modify", "modify", "remove", "rename", "chmod", "touch", "swap", "retarget", "edge"])

        def below(n):
            pre = n["p"]
            return [m for m in t if m["p"][:len(pre)] == pre]

        def fresh_mtime(old):
            c = [m for m in mt_pool if list(m) != list(old)]
            return list(rng.choice(c))

        if op == "add":
            parent = rng.choice(dirs)
            name = rng.choice(names)
            p = parent["p"] + [list(name.encode())]
            if (path_str(p)) in idx:
                continue
            kind = rng.choice(["File", "File", "Dir", "Symlink"])
            if kind == "File":
                t.append(node(path_str(p), "File", rand_content(rng, maxlen), mt=rng.choice(mt_pool)))
            elif kind == "Dir":
                t.append(node(path_str(p), "Dir", mt=rng.choice(mt_pool)))
            else:
                t.append(node(path_str(p), "Symlink", target=rng.choice(["a", "zz", "../q"]), mt=rng.choice(mt_pool)))
        elif op == "modify" and files:
            f = rng.choice(files)
            f["c"] = list(rand_content(rng, maxlen))
            f["mt"] = fresh_mtime(f["mt"])
        elif op == "remove" and nonroot:
            v = rng.choice(nonroot)
            gone = below(v)
            t = [m for m in t if m not in gone]
        elif op == "rename" and nonroot:
            v = rng.choice(nonroot)
            name = rng.choice(names)
            newp = v["p"][:-1] + [list(name.encode())]
            if path_str(newp) in idx:
                continue
            old = v["p"]
            for m in below(v):
                m["p"] = newp + m["p"][len(old):]
        elif op == "chmod" and nonroot:
            v = rng.choice(nonroot)
            if v["k"] != "Symlink":
                v["mode"] = rng.choice([0o600, 0o640, 0o755, 0o711, 0o444])
        elif op == "touch" and nonroot:
            v = rng.choice(nonroot)
            v["mt"] = fresh_mtime(v["mt"])
        elif op == "swap" and nonroot:
            v = rng.choice(nonroot)
            if v["k"] == "File":
                v.update({"k": "Dir", "c": [], "mode": 0o755, "mt": fresh_mtime(v["mt"])})
            elif v["k"] == "Dir":
                gone = [m for m in below(v) if m is not v]
                t = [m for m in t if m not in gone]
                v.update({"k": "File", "c": list(rand_content(rng, maxlen)), "mode": 0o644, "mt": fresh_mtime(v["mt"])})
            else:
                v.update({"k": "File", "t": [], "c": list(rand_content(rng, maxlen)), "mode": 0o644, "mt": fresh_mtime(v["mt"])})
        elif op == "edge" and dirs:
            # add an entry sorting after (or before) every other child of a directory, or remove the
            # last / first child: the position where a lock-step merge compares across directories
            d = rng.choice(dirs)
            kids = sorted((m for m in t if len(m["p"]) == len(d["p"]) + 1 and m["p"][:len(d["p"])] == d["p"]),
                          key=lambda m: bytes(m["p"][-1]))
            how = rng.choice(["add-last", "add-first", "del-last", "del-first"])
            if how.startswith("add"):
                nm = "zzz" if how == "add-last" else "!0"
                p = d["p"] + [list(nm.encode())]
                if path_str(p) not in idx:
                    t.append(node(path_str(p), "File", rand_content(rng, maxlen), mt=rng.choice(mt_pool)))
            elif kids:
                v = kids[-1] if how == "del-last" else kids[0]
                gone = below(v)
                t = [m for m in t if m not in gone]
        elif op == "retarget":
            links = [n for n in t if n["k"] == "Symlink"]
            if links:
                v = rng.choice(links)
                v["t"] = list(rng.choice([b"a", b"b/c", b"..", b"/abs"]))
    # touching a directory's children changes its mtime on a real filesystem; we set all mtimes
    # explicitly, so directory mtimes stay what the nodes say.
    return t


def fix_tree(tree):
    """Make a generated tree materialisable whatever the generator did: one node per path (the first
    wins), every ancestor present as a directory (else the node is dropped), the root a directory."""
    seen = {}
    out = []
    for n in sorted(tree, key=lambda n: len(n["p"])):
        key = tuple(tuple(c) for c in n["p"])
        if key in seen:
            continue
        if n["p"]:
            parent = key[:-1]
            if parent not in seen or seen[parent] != "Dir":
                continue
            if any(len(c) == 0 or 47 in c or 0 in c or c in ([46], [46, 46]) for c in n["p"]):
                continue
        elif n["k"] != "Dir":
            continue
        seen[key] = n["k"]
        out.append(n)
    # keep the generator's order for what survives
    keep = {id(n) for n in out}
    return [n for n in tree if id(n) in keep]


def fix_scenario(s):
    longest = [0]

    def walk(steps):
        for st in steps:
            if st.get("op") in ("tree", "outside") and "tree" in st:
                st["tree"] = fix_tree(st["tree"])
                if st.get("op") == "tree":
                    longest[0] = max([longest[0]] + [len(n.get("c", [])) for n in st["tree"]])
            for a in st.get("actors", []):
                if "tree" in a:
                    a["tree"] = fix_tree(a["tree"])
                    longest[0] = max([longest[0]] + [len(n.get("c", [])) for n in a["tree"]])
            if "then" in st:
                walk(st["then"])

    def cap(steps):
        # contents of hundreds of bytes under a block size of one or two bytes make thousands of
        # blocks per file (one scenario's trace reached half a gigabyte): at most 40 blocks per file
        for st in steps:
            for b in [st, st.get("base")] + list(st.get("actors", [])):
                if isinstance(b, dict) and b.get("op") == "backup" and "M" in b and b["M"] * 40 < longest[0]:
                    b["M"] = (longest[0] + 39) // 40
            if "then" in st:
                cap(st["then"])

    walk(s["steps"])
    if s.get("mode") != "big" and longest[0] > 80:
        cap(s["steps"])
    return s


def age_scenario(s):
    """One scenario in six (chosen by its id) continues on an archive as releases before 0.6.4 left
    it: after its first ordinary backup the tails are rewritten without their hunk count (harness
    step legacy_tails). Such archives are legal and in use; everything after is judged as usual."""
    if s.get("mode", "clean") not in ("clean", "fault", "conc", "big") or s.get("session") or s.get("no_create"):
        return s
    if int(hashlib.sha1(s["id"].encode()).hexdigest(), 16) % 6:
        return s
    ops = [st.get("op") for st in s["steps"]]
    if "archive_digest" in ops or "legacy_tails" in ops or "new_archive" in ops:
        return s
    for i, st in enumerate(s["steps"][:-1]):
        if st.get("op") == "backup" and not any(k in st for k in ("crash_at", "crash_from_end", "crash_torn", "fail_p", "fail_block", "mutate_during", "actor")):
            s["steps"].insert(i + 1, {"op": "legacy_tails"})
            # ... and it is old: its files were last written long ago
            s["steps"].insert(i + 2, {"op": "age_files", "days": 30 + int(hashlib.sha1(s["id"].encode()).hexdigest()[:3], 16)})
            s["tags"] = list(s.get("tags", [])) + ["legacy-tails", "aged-files"]
            break
    return s


def odd_source(s):
    """One scenario in seven (chosen by its id) has named pipes in its source trees: a backup cannot
    store them and passes over them without a word; everything else is judged as usual."""
    if s.get("mode", "clean") not in ("clean", "fault", "big") or int(hashlib.sha1(("pipe" + s["id"]).encode()).hexdigest(), 16) % 7:
        return s
    hit = False
    for st in s["steps"]:
        if st.get("op") == "tree" and "tree" in st:
            have = {tuple(tuple(c) for c in n["p"]) for n in st["tree"]}
            dirs = [n for n in st["tree"] if n["k"] == "Dir"][:2]
            for d in dirs:
                p = d["p"] + [list(b"m.pipe")]
                if tuple(tuple(c) for c in p) not in have:
                    n = node("/x", "Fifo")
                    n["p"] = p
                    st["tree"].append(n)
                    hit = True
    if hit:
        s["tags"] = list(s.get("tags", [])) + ["pipes-in-source"]
    return s


def odd_umask(s):
    """One scenario in five (chosen by its id) runs under a process umask other than 022."""
    h = int(hashlib.sha1(("umask" + s["id"]).encode()).hexdigest(), 16)
    if h % 5 == 0 and "umask" not in s:
        s["umask"] = [0o077, 0o027, 0o002, 0o000, 0o777, 0o137][(h // 5) % 6]
    return s


def block_subdir(content):
    """The d/xyz directory a block with this content is stored in."""
    return hashlib.blake2b(bytes(content)).hexdigest()[:3]


def subdir_mate(rng, content, length=None):
    """A different content whose block is stored in the same d/xyz directory."""
    want = block_subdir(content)
    n = max(2, length or len(content))
    while True:
        c = bytes(rng.randrange(1, 256) for _ in range(n))
        if c != bytes(content) and block_subdir(c) == want:
            return c


MATE_OPTS = [{"H": 1000, "M": 1000, "S": 0}, {"H": 2, "M": 8, "S": 0}, {"H": 3, "M": 1000, "S": 1}, {"H": 1, "M": 6, "S": 0}]


def mates_pair(rng):
    """Two trees and settings under which every file is a block of its own, such that blocks of the
    second tree that the first does not have are stored in the same d/xyz directories as blocks of
    the first (and the other way round): (t0, t1, opts)."""
    o = rng.choice(MATE_OPTS)
    names = rng.sample(["a", "b", "c", "e", "k"], rng.randrange(2, 4))
    cs = [bytes(rng.randrange(1, 256) for _ in range(rng.randrange(2, 6))) for _ in names]
    t0 = [node("/", "Dir")] + [node("/" + nm, "File", c, mt=(1600006000 + j, 0)) for j, (nm, c) in enumerate(zip(names, cs))]
    t1 = [dict(n) for n in t0]
    j = rng.randrange(0, len(names))
    # one file rewritten to a mate of its old content, one or two new files that are mates of others
    t1[1 + j] = node("/" + names[j], "File", subdir_mate(rng, cs[j]), mt=(1600006500 + j, 0))
    for k in range(rng.randrange(1, 3)):
        t1.append(node("/m%d" % k, "File", subdir_mate(rng, rng.choice(cs)), mt=(1600006600 + k, 0)))
    return t0, t1, o


_uniq = [0]


def distinct_from_history(tree, earlier):
    """The statements exclude content changes that keep path, kind, size and mtime (the unchanged
    heuristic cannot see them). A random mutation can produce one by accident (a rename onto a
    path that held a same-size file with the same mtime in an earlier version): give such a file
    a fresh, unique mtime."""
    for n in tree:
        if n["k"] != "File":
            continue
        for t in earlier:
            for m in t:
                if m["p"] == n["p"] and m["k"] == "File" and m["mt"] == n["mt"] and len(m["c"]) == len(n["c"]) and m["c"] != n["c"]:
                    _uniq[0] += 1
                    n["mt"] = [1700000000 + _uniq[0], 0]
    return tree


def rand_opts(rng):
    """Backup settings at toy scale: entries per hunk, max block size, small-file cap."""
    return {"H": rng.choice([1, 2, 3, 5, 1000]), "M": rng.choice([1, 2, 3, 4, 7, 1000]),
            "S": rng.choice([0, 1, 2, 3, 5, 1000])}


# ------------------------------------------------------------------------------------------
# monitors -> properties

# Which properties a monitor's violation can be evidence against. A check for property P
# reports a violation of monitor m only when P is listed for m (DESIGN.md section 7).
MONITOR_PROPS = {
    "Panic": ["C01", "C02", "C03", "C04", "C06", "C08", "C09", "C10", "C12", "C13", "C14", "C15", "C16", "C17", "C18", "C07"],
    "Hang": ["C08", "C10", "C01", "C02", "C03", "C04", "C05", "C06"],
    "BackupNotClean": ["C01", "C02", "C03", "C13", "C14", "C15", "C17", "C18", "C10"],
    "CompleteSuccessWrong": ["C01", "C02", "C03", "C04", "C14", "C10", "C15"],
    "RestoreFailed": ["C01", "C02", "C03", "C05", "C06", "C12", "C15", "C04"],
    "RestoreDiffersFromListing": ["C01", "C02", "C03", "C12", "C15", "C05"],
    "RestoreDiffersFromSnapshot": ["C01", "C02", "C03", "C05", "C06", "C04"],
    "LatestWrong": ["C02"],
    "SnapRestores": ["C02", "C03", "C04", "C05", "C07"],
    "RecordedBytes": ["C02", "C04", "C03", "C14"],
    "NoDangling": ["C03", "C04", "C05", "C13"],
    "Format": ["C13", "C11"],
    "CreateNewContract": ["C07"],
    "BackupOverwrote": ["C07", "C14", "C04"],
    "BackupRemoved": ["C07", "C04"],
    "InterruptedNotPrefix": ["C03", "C04"],
    "NewBandNotAbove": ["C07"],
    "GcWrote": ["C07"],
    "GcRemovedUnrequested": ["C07", "C05"],
    "GcRemovedOthersLock": ["C07", "C06"],
    "GcRemovedReferenced": ["C05", "C07", "C06"],
    "DryRunMutated": ["C05"],
    "DryRunChanged": ["C05"],
    "RefusedDeleteChanged": ["C05", "C06"],
    "DeleteWrongBands": ["C05"],
    "GcLostReferenced": ["C05", "C06"],
    "GcLeftGarbage": ["C05"],
    "LockLeft": ["C05"],
    "ReaderMutated": ["C07"],
    # informational only: the statements speak of what is written, not of what BackupStats says
    "WrittenBlocksStat": [],
    "NotReused": ["C14"],
    "UnchangedWroteBlocks": ["C14"],
    "ListFailed": ["C08", "C12", "C15", "C03", "C13"],
    "ListingNotIncreasing": ["C08", "C11"],
    "ListingDiffers": ["C08", "C12", "C15", "C03", "C13"],
    "ValidateFalseAlarm": ["C09"],
    "ValidateSilent": ["C09"],
    "VersionsWrong": ["C03"],
    "RestoreEscaped": ["C16"],
    "SyscallEscaped": ["C16"],
    "ClobberedDestination": ["C16"],
    "QuiescentDangling": ["C06"],
    "QuiescentSnap": ["C06"],
    "WroteIntoOthersBand": ["C07"],
    "TwoWinners": ["C07"],
    "ApathTable": ["C11", "C12"],
    "WalkOrder": ["C11"],
    "WalkSet": ["C11", "C15"],
    "ExcludeBackup": ["C15"],
    "ExcludeAgree": ["C15"],
    "NotDeterministic": ["C17"],
    "DiffWrong": ["C18"],
    "DiffNotEmpty": ["C18"],
    "CallbackWrong": ["C18"],
    "UntouchedNotRestored": ["C10"],
    "AffectedSilent": ["C10"],
    "BackupAfterDamage": ["C10"],
    "SyscallEscaped": ["C16"],
}


# ------------------------------------------------------------------------------------------
# running scenarios and validating traces

def shard(items, n):
    out = [[] for _ in range(n)]
    for i, it in enumerate(items):
        out[i % n].append(it)
    return [s for s in out if s]


def run_harness_shard(scens, workdir, idx):
    """Run one shard of scenarios; returns (trace_path, hangs) where hangs is a list of scenario ids
    during which the harness hung or died."""
    spath = os.path.join(workdir, f"scen{idx}.jsonl")
    with open(spath, "w") as f:
        for s in scens:
            f.write(json.dumps(s) + "\n")
    tpath = os.path.join(workdir, f"trace{idx}.ndjson")
    hangs = []
    start = 0
    parts = []
    attempt = 0
    while start < len(scens):
        part = tpath + f".{attempt}"
        attempt += 1
        p = subprocess.run([HBIN, "run", spath, part, os.path.join(workdir, f"w{idx}"), str(start)],
                           stdout=subprocess.PIPE, stderr=subprocess.PIPE, text=True,
                           timeout=3600)
        parts.append(part)
        if p.returncode == 0:
            break
        # find the scenario in progress
        done = -1
        cur = None
        try:
            with open(part) as f:
                for line in f:
                    try:
                        r = json.loads(line)
                    except ValueError:
                        continue
                    if r.get("ev") == "end":
                        done = r["index"]
                    elif r.get("ev") == "scenario":
                        cur = r["id"]
        except OSError:
            pass
        if p.returncode == 3:
            hangs.append((cur, "hang"))
        else:
            hangs.append((cur, "abort rc=%d %s" % (p.returncode, p.stderr[-400:])))
        # the scenario in progress is the one after the last completed one; skip it
        start = (done + 1 if done >= start else start) + 1
    # concatenate parts, dropping events of scenarios that did not finish (their prefix stays
    # in the hang record); keep only complete lines
    stats = {"screened": 0, "hot": 0, "injections": 0}
    with open(tpath, "w") as out:
        for part in parts:
            if not os.path.exists(part):
                continue
            buf = []
            with open(part) as f:
                for line in f:
                    if not line.endswith("\n"):
                        continue
                    try:
                        r = json.loads(line)
                    except ValueError:
                        continue
                    buf.append(line)
                    if r.get("ev") == "sweep":
                        stats["screened"] += r.get("screened", 0)
                        stats["hot"] += r.get("hot", 0)
                        stats["injections"] += r.get("ninj", 0)
                    if r.get("ev") == "end":
                        out.writelines(buf)
                        buf = []
            os.unlink(part)
    with open(tpath + ".stats.json", "w") as f:
        json.dump(stats, f)
    return tpath, hangs


def run_tlc_trace(tpath, workdir, idx, timeout=1800):
    """Validate one trace file. Returns (list of violations, number of events)."""
    env = dict(os.environ)
    env["TRACE"] = tpath
    # (the whole trace is held in memory as TLA+ values: a long one needs a larger heap)
    heap = "3g" if os.path.getsize(tpath) < 150_000_000 else "10g"
    env["JAVA_TOOL_OPTIONS"] = f"-Xss1g -Xmx{heap} -XX:ParallelGCThreads=2 -Dtlc2.tool.queue.IStateQueue=StateDeque"
    md = os.path.join(workdir, f"md{idx}")
    vout = os.path.join(workdir, f"viol{idx}.json")
    env["VIOLOUT"] = vout
    nlines = sum(1 for _ in open(tpath))
    if nlines == 0:
        return [], 0
    p = subprocess.run(["tlc", "-workers", "1", "-metadir", md, "-cleanup", "-noGenerateSpecTE",
                        "-config", "Trace.cfg", "Trace.tla"], cwd=SPEC, env=env,
                       stdout=subprocess.PIPE, stderr=subprocess.STDOUT, text=True, timeout=timeout)
    out = p.stdout
    if "Model checking completed. No error has been found." not in out or not os.path.exists(vout):
        tail = out[-3000:]
        raise ToolError(f"TLC did not accept trace {tpath} (events={nlines}):\n{tail}")
    viol = json.load(open(vout))
    os.unlink(vout)
    shutil.rmtree(md, ignore_errors=True)
    return viol, nlines


def run_tlc_proto(tpath, workdir, idx, timeout=1800):
    """Protocol conformance of one trace against the reference programs (spec/TraceProto.tla).
    Returns dict(drift=[...], nchecked=n)."""
    env = dict(os.environ)
    env["TRACE"] = tpath
    env["JAVA_TOOL_OPTIONS"] = "-Xss1g -Xmx3g -XX:ParallelGCThreads=2 -Dtlc2.tool.queue.IStateQueue=StateDeque"
    md = os.path.join(workdir, f"mdp{idx}")
    vout = os.path.join(workdir, f"proto{idx}.json")
    env["VIOLOUT"] = vout
    if os.path.getsize(tpath) == 0:
        return {"drift": [], "nchecked": 0, "nfaults": 0}
    p = subprocess.run(["tlc", "-workers", "1", "-metadir", md, "-cleanup", "-noGenerateSpecTE",
                        "-config", "TraceProto.cfg", "TraceProto.tla"], cwd=SPEC, env=env,
                       stdout=subprocess.PIPE, stderr=subprocess.STDOUT, text=True, timeout=timeout)
    out = p.stdout
    if "Model checking completed. No error has been found." not in out or not os.path.exists(vout):
        raise ToolError(f"TLC (TraceProto) did not accept trace {tpath}:\n{out[-3000:]}")
    r = json.load(open(vout))
    os.unlink(vout)
    shutil.rmtree(md, ignore_errors=True)
    return r


def run_and_validate(scens, nshards=NCPU, keep=False, proto=False):
    """Run scenarios on the real code and validate every trace with TLC.
    Returns dict(viol=[(scen, monitor, line, detail)], hangs=[...], events=n, traces=n, wall_h, wall_t, workdir)."""
    work = tempfile.mkdtemp(prefix="cvrun-")
    # (scenarios differ widely in cost -- a sweep is hundreds of runs: four times as many shards as
    # workers, handed out as workers become free, keep the last worker from running on alone)
    workers = nshards
    if nshards > 1 and len(scens) > nshards:
        nshards = min(len(scens), 4 * nshards)
    shards = shard(scens, nshards)
    nshards = workers
    t0 = time.time()
    with ThreadPoolExecutor(max_workers=nshards) as ex:
        res = list(ex.map(lambda a: run_harness_shard(a[1], work, a[0]), enumerate(shards)))
    t1 = time.time()
    # the traces of the shards are joined into one file per worker for TLC (a JVM start per file)
    merged = []
    for k in range(nshards):
        members = [r[0] for r in res[k::nshards]]
        if not members:
            continue
        mp = os.path.join(work, f"merged{k}.ndjson")
        with open(mp, "wb") as out:
            for tp in members:
                with open(tp, "rb") as f:
                    shutil.copyfileobj(f, out)
        merged.append(mp)
    with ThreadPoolExecutor(max_workers=nshards) as ex:
        vres = list(ex.map(lambda a: run_tlc_trace(a[1], work, a[0]), enumerate(merged)))
    t2 = time.time()
    drift, nchecked, nfaults = [], 0, 0
    if proto:
        with ThreadPoolExecutor(max_workers=nshards) as ex:
            pres = list(ex.map(lambda a: run_tlc_proto(a[1], work, a[0]), enumerate(merged)))
        for r in pres:
            drift.extend(r["drift"])
            nchecked += r["nchecked"]
            nfaults += r.get("nfaults", 0)
    t3 = time.time()
    viol = []
    events = 0
    for v, n in vres:
        viol.extend(v)
        events += n
    hangs = [h for _, hs in res for h in hs]
    sweep = {"screened": 0, "hot": 0, "injections": 0}
    for tp, _ in res:
        try:
            st = json.load(open(tp + ".stats.json"))
            for k in sweep:
                sweep[k] += st.get(k, 0)
        except (OSError, ValueError):
            pass
    out = dict(sweep=sweep, viol=viol, hangs=hangs, events=events, traces=len(scens), wall_h=t1 - t0, wall_t=t2 - t1, workdir=work,
               drift=drift, proto_calls=nchecked, proto_faults=nfaults, wall_p=t3 - t2)
    if not keep:
        shutil.rmtree(work, ignore_errors=True)
    return out


# ------------------------------------------------------------------------------------------
# exhaustive TLC runs of model configs

def run_tlc_model(module, cfg, workers=NCPU, timeout=1200, extra=None):
    """Run an exhaustive (or simulation) TLC config in spec/. Returns dict with states, distinct,
    ok, out."""
    md = tempfile.mkdtemp(prefix="cvmc-")
    env = dict(os.environ)
    env["JAVA_TOOL_OPTIONS"] = "-Xss512m -Xmx8g"
    cmd = ["tlc", "-workers", str(workers), "-metadir", md, "-cleanup", "-noGenerateSpecTE", "-coverage", "1",
           "-config", cfg, module] + (extra or [])
    t0 = time.time()
    try:
        p = subprocess.run(cmd, cwd=SPEC, env=env, stdout=subprocess.PIPE, stderr=subprocess.STDOUT, text=True, timeout=timeout)
        out = p.stdout
        timed_out = False
    except subprocess.TimeoutExpired as e:
        out = (e.stdout or b"").decode() if isinstance(e.stdout, bytes) else (e.stdout or "")
        timed_out = True
    shutil.rmtree(md, ignore_errors=True)
    m = re.search(r"(\d+) states generated, (\d+) distinct states found", out)
    ok = ("Model checking completed. No error has been found." in out) and not timed_out
    states = int(m.group(2)) if m else 0
    trans = int(m.group(1)) if m else 0
    simulated = bool(extra and "-simulate" in extra)
    if simulated:
        # random behaviours, not an exhaustive search: TLC reports states checked and traces generated
        ms = re.search(r"The number of states generated: (\d+)", out)
        mt = re.search(r"(\d+) traces generated", out)
        states = trans = int(ms.group(1)) if ms else 0
        ok = (ms is not None) and ("Error:" not in out) and not timed_out
        return dict(states=states, transitions=trans, ok=ok, timed_out=timed_out, out=out, wall=time.time() - t0,
                    simulated=True, traces=int(mt.group(1)) if mt else 0)
    return dict(states=states, transitions=trans, ok=ok,
                timed_out=timed_out, out=out, wall=time.time() - t0, simulated=False)


# ------------------------------------------------------------------------------------------
# verdicts, known findings, evidence

def load_known():
    p = os.path.join(VERIF, "known_findings.json")
    if not os.path.exists(p):
        return {"findings": [], "fixed": []}
    return json.load(open(p))


def finding_matches(f, prop, monitor, scen, detail, scen_obj):
    """A known finding is identified by property + monitor + a discriminating predicate on the
    failing scenario (never by the property alone)."""
    if f["property"] != prop or f["monitor"] != monitor:
        return False
    sig = f.get("signature", {})
    if "detail_re" in sig and not re.search(sig["detail_re"], detail or ""):
        return False
    if "scenario_tag" in sig:
        tags = (scen_obj or {}).get("tags", [])
        if sig["scenario_tag"] not in tags:
            return False
    return True


def judge(prop, result, scen_by_id, tier, seed, replay_dir=None):
    """Turn collected monitor violations into VIOLATION / KNOWN-FINDING lines for `prop`.
    Returns (n_violations, lines, other) ."""
    known = load_known()
    lines = []
    nviol = 0
    binding = []
    seen_known = set()
    other = {}
    by_scen = {}
    for v in result["viol"]:
        scen, mon, line, detail = v[0], v[1], v[2], v[3]
        if mon == "BINDING":
            # the state rebuilt from the logged verbs differs from the archive on disk: the trace of that
            # scenario is incomplete. A tool error -- unless violations were found anyway (see below)
            binding.append((scen, line))
            continue
        props = MONITOR_PROPS.get(mon, [])
        if prop not in props:
            other.setdefault(mon, 0)
            other[mon] += 1
            continue
        by_scen.setdefault(scen, []).append((mon, line, detail))
    for cur, why in result["hangs"]:
        if why == "hang":
            by_scen.setdefault(cur, []).append(("Hang", -1, "process watchdog"))
        else:
            raise ToolError(f"harness died in scenario {cur}: {why}")
    for scen, items in sorted(by_scen.items(), key=lambda kv: str(kv[0])):
        so = scen_by_id.get(scen)
        unknown = []
        for mon, line, detail in items:
            if "Hang" == mon and prop not in MONITOR_PROPS["Hang"]:
                continue
            hit = None
            for f in known["findings"]:
                if finding_matches(f, prop, mon, scen, detail, so):
                    hit = f
                    break
            if hit:
                seen_known.add(hit["id"])
            else:
                unknown.append((mon, line, detail))
        if unknown:
            nviol += 1
            rp = write_replay(prop, so, unknown, tier, seed, replay_dir)
            lines.append(f"VIOLATION property={prop} replay={rp}")
            lines.append("  scenario=%s monitors=%s" % (scen, sorted({u[0] for u in unknown})))
    for f in known["findings"]:
        if f["id"] in seen_known:
            lines.insert(0, f"KNOWN-FINDING: property={f['property']} {f['id']} {f['what']}")
    if binding:
        if nviol == 0:
            raise ToolError(f"binding broken in scenario {binding[0][0]} at event {binding[0][1]}: the state rebuilt from the logged verbs differs from the archive on disk")
        lines.append(f"[note] the trace of {len(binding)} scenario(s) was incomplete (state rebuilt from the logged verbs differs from the directory), e.g. {binding[0][0]}")
    return nviol, lines, other


def write_replay(prop, scen_obj, items, tier, seed, replay_dir=None):
    d = replay_dir or os.path.join(OUTDIR, "replays", prop)
    os.makedirs(d, exist_ok=True)
    body = {"property": prop, "tier": tier, "seed": seed, "scenario": scen_obj,
            "broken": [{"monitor": m, "event": l, "detail": dt} for m, l, dt in items]}
    digest = hashlib.sha1(json.dumps(scen_obj, sort_keys=True).encode()).hexdigest()[:12]
    path = os.path.join(d, f"{digest}.json")
    with open(path, "w") as f:
        json.dump(body, f)
    return path


def write_evidence(prop, tier, seed, level, coverage, wall, violations, assumptions):
    os.makedirs(os.path.join(OUTDIR, "evidence"), exist_ok=True)
    ev = {"property_id": prop, "tier": tier, "seed": seed, "level": level, "coverage": coverage,
          "assumptions": assumptions, "wall_s": round(wall, 2), "violations": violations}
    with open(os.path.join(OUTDIR, "evidence", f"{prop}.json"), "w") as f:
        json.dump(ev, f, indent=1)


def scen_digest(s):
    c = dict(s)
    c.pop("id", None)
    return hashlib.sha1(json.dumps(c, sort_keys=True).encode()).hexdigest()


def brief(s, maxlen=900):
    j = json.dumps(s)
    return j if len(j) <= maxlen else j[:maxlen] + "...(truncated)"
