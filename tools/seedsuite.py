#!/usr/bin/env python3
"""tools/seedsuite.py [-j N] [--tier quick] [--only SUBSTR] [--all-checks]

Detection regression suite: every seeded change under /verif/seeded/<id>/ is applied to its own
scratch worktree of /repo (never to /repo itself), the check of the property it breaks (and with
--all-checks every check listed in its meta.json) is run against that worktree through VERIF_REPO,
and the outcome is tabulated: caught (exit 1 with VIOLATION lines), missed (exit 0), tool error
(exit 2: counts as a miss).  Worktrees and private harness builds are removed afterwards.
Writes work/seedsuite.json."""
import argparse
import json
import os
import re
import subprocess
import sys
import tempfile
from concurrent.futures import ThreadPoolExecutor

VERIF = os.path.dirname(os.path.dirname(os.path.abspath(__file__)))


def run_one(seed, checks, tier):
    d = os.path.join(VERIF, "seeded", seed)
    wt = tempfile.mkdtemp(prefix="seedrun-", dir="/tmp")
    os.rmdir(wt)
    out = {"seed": seed, "results": {}}
    try:
        subprocess.run(["git", "-C", "/repo", "worktree", "add", "-q", "--detach", wt, "HEAD"], check=True,
                       stdout=subprocess.DEVNULL, stderr=subprocess.DEVNULL)
        p = subprocess.run(["git", "-C", wt, "apply", os.path.join(d, "patch.diff")], stdout=subprocess.PIPE, stderr=subprocess.STDOUT, text=True)
        if p.returncode != 0:
            out["error"] = "patch does not apply: " + p.stdout[-300:]
            return out
        env = dict(os.environ, VERIF_REPO=wt)
        for c in checks:
            r = subprocess.run([os.path.join(VERIF, "check"), c, "--tier", tier], cwd=VERIF, env=env,
                               stdout=subprocess.PIPE, stderr=subprocess.STDOUT, text=True)
            mons = sorted(set(re.findall(r"'([A-Za-z]+)'", " ".join(l for l in r.stdout.splitlines() if "monitors=" in l))))
            nv = sum(1 for l in r.stdout.splitlines() if l.startswith("VIOLATION"))
            tool = [l for l in r.stdout.splitlines() if l.startswith("TOOL-ERROR")]
            drift = sum(1 for l in r.stdout.splitlines() if l.startswith("SPEC-DRIFT"))
            out["results"][c] = {"rc": r.returncode, "violations": nv, "monitors": mons, "drift": drift, "tool_error": tool[:1]}
    finally:
        cvh = subprocess.run([sys.executable, "-c", "import sys;sys.path.insert(0,'tools');import cvlib;print(cvlib.HARNESS)"],
                             cwd=VERIF, env=dict(os.environ, VERIF_REPO=wt), stdout=subprocess.PIPE, text=True).stdout.strip()
        if cvh.startswith("/tmp/cvh-"):
            subprocess.run(["rm", "-rf", cvh])
        subprocess.run(["git", "-C", "/repo", "worktree", "remove", "--force", wt], stdout=subprocess.DEVNULL, stderr=subprocess.DEVNULL)
        subprocess.run(["rm", "-rf", os.path.join(VERIF, "work", "alt", os.path.basename(wt))])
    return out


def main():
    ap = argparse.ArgumentParser()
    ap.add_argument("-j", type=int, default=3)
    ap.add_argument("--tier", default="quick")
    ap.add_argument("--only", default="")
    ap.add_argument("--all-checks", action="store_true")
    ap.add_argument("--names", default="", help="comma-separated seed directory names (exact)")
    a = ap.parse_args()
    names = set(x for x in a.names.split(",") if x)
    jobs = []
    for seed in sorted(os.listdir(os.path.join(VERIF, "seeded"))):
        if a.only and a.only not in seed:
            continue
        if names and seed not in names:
            continue
        m = json.load(open(os.path.join(VERIF, "seeded", seed, "meta.json")))
        checks = [m["breaks_property"]]
        if a.all_checks:
            checks += [c for c in m.get("checks", []) if c not in checks]
        jobs.append((seed, checks))
    with ThreadPoolExecutor(max_workers=a.j) as ex:
        res = list(ex.map(lambda j: run_one(j[0], j[1], a.tier), jobs))
    caught = 0
    for r in res:
        own = next(iter(r["results"].values()), None)
        ok = own is not None and own["rc"] == 1
        caught += ok
        line = "  ".join(f"{c}: rc={v['rc']} viol={v['violations']} {','.join(v['monitors'][:4])}" + (" TOOL-ERROR" if v["tool_error"] else "")
                         for c, v in r["results"].items())
        print(("CAUGHT " if ok else "MISSED ") + f"{r['seed']:40s} {line} {r.get('error', '')}")
    print(f"{caught}/{len(res)} seeded changes caught by the check of the property they break ({a.tier} tier)")
    os.makedirs(os.path.join(VERIF, "work"), exist_ok=True)
    json.dump(res, open(os.path.join(VERIF, "work", "seedsuite.json"), "w"), indent=1)
    return 0 if caught == len(res) else 1


if __name__ == "__main__":
    sys.exit(main())
