#!/bin/bash
# usage: tools/seedtest_wt.sh <seeded/<id>/patch.diff | worktree dir> <prop> [<prop> ...]   (env TIER=quick|thorough)
# Like seedtest.sh but never touches /repo: a scratch worktree of /repo (under /tmp) gets the
# patch, and the checks run with VERIF_REPO pointing at it (private harness build under /tmp).
# Several of these can run at once. The worktree and the harness copy are removed afterwards
# unless KEEP=1. The registered checks (MANIFEST.json) never use this path.
set -u
arg="$(readlink -f "$1")"; shift
cd /verif
if [ -d "$arg" ]; then wt="$arg"; own=0; else
  wt=$(mktemp -d /tmp/seedrun-XXXXXX); rmdir "$wt"
  git -C /repo worktree add -q --detach "$wt" HEAD || exit 2
  if ! git -C "$wt" apply "$arg"; then echo "patch does not apply"; git -C /repo worktree remove --force "$wt"; exit 2; fi
  own=1
fi
export VERIF_REPO="$wt"
cvh=$(python3 -c "import sys;sys.path.insert(0,'tools');import cvlib;print(cvlib.HARNESS)")
cleanup() { [ "${KEEP:-0}" = 1 ] && return; rm -rf "$cvh"; [ $own = 1 ] && git -C /repo worktree remove --force "$wt"; }
trap cleanup EXIT
for p in "$@"; do
  echo "=== $p on $wt"
  ./check "$p" --tier "${TIER:-quick}" 2>&1 | grep -E "VIOLATION|KNOWN|TOOL-ERROR|SPEC-DRIFT|scenario=|executed" | head -${LINES_MAX:-8}
  echo "exit=${PIPESTATUS[0]}"
done
