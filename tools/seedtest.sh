#!/bin/bash
# usage: tools/seedtest.sh <patch.diff> <prop> [<prop> ...]   (env TIER=quick|thorough)
# Applies a seeded change to /repo, runs the named checks, and always restores /repo.
set -u
patch="$(readlink -f "$1")"; shift
cd /verif
if ! git -C /repo diff --quiet; then echo "/repo has local changes; refusing"; exit 2; fi
if ! git -C /repo apply --check "$patch" 2>/dev/null; then echo "patch does not apply"; exit 2; fi
git -C /repo apply "$patch"
trap 'git -C /repo checkout -- . ; echo "[seedtest] /repo restored"' EXIT
for p in "$@"; do
  echo "=== $p with $(basename $(dirname $patch))/$(basename $patch)"
  ./check "$p" --tier "${TIER:-quick}" 2>&1 | grep -E "VIOLATION|KNOWN|TOOL-ERROR|scenario=|executed" | head -${LINES_MAX:-8}
  echo "exit=${PIPESTATUS[0]}"
done
