#!/bin/bash
# usage: tools/runsome.sh <tier> <seed> Cxx [Cyy ...]  — runs the named checks in that order, one line each
tier=$1; seed=$2; shift 2
cd "$(dirname "$(readlink -f "$0")")/.."
for p in "$@"; do
  s=$(date +%s)
  out=$(./check $p --tier $tier --seed $seed 2>&1); rc=$?
  e=$(date +%s)
  echo "$p rc=$rc $((e-s))s $(echo "$out" | grep -c '^VIOLATION') violations; $(echo "$out" | grep -E 'executed' | sed 's/.*\] //')"
  if [ $rc -ne 0 ]; then echo "$out" | grep -E "VIOLATION|TOOL-ERROR|KNOWN|scenario=" | head -6; fi
done
