#!/usr/bin/env python3
"""tools/dbg.py <replay.json|scenario.json> [context]: run one scenario alone, validate, and print
each violation with the storage verbs leading to it."""
import json, os, subprocess, sys, tempfile
sys.path.insert(0, os.path.dirname(os.path.abspath(__file__)))
import cvlib
b = json.load(open(sys.argv[1]))
s = b.get("scenario", b)
ctx = int(sys.argv[2]) if len(sys.argv) > 2 else 25
res = cvlib.run_and_validate([s], nshards=1, keep=True)
rows = [json.loads(l) for l in open(os.path.join(res["workdir"], "trace0.ndjson"))]
seen = set()
for v in sorted(res["viol"], key=lambda v: v[2]):
    scen, mon, ln, det = v
    print(f"### {mon} at event {ln}: {det[:300]}")
    if ln in seen:
        continue
    seen.add(ln)
    for i in range(max(0, ln - ctx), ln):
        q = rows[i]
        if q["ev"] == "op":
            k = q["key"]
            print(f"  {i+1:5d} {q['actor']:4s} {q['verb']:14s} {k['t']:9s} b={k['b']} n={k['n']} h={k['h'][:6]} res={q['res']} pre={q['pre']} inj={q['inj']}" + (f" names={q['names']}" if q['verb']=='list_dir' and k['t'] in ('Root',) else ''))
        elif q["ev"] in ("call", "ret"):
            print(f"  {i+1:5d} {q['ev']} {q.get('actor')} {q.get('fn')} res={q.get('res')} errors={q.get('errors')} mon={q.get('mon_list')} bands={q.get('bands')}")
        elif q["ev"] == "obs":
            print(f"  {i+1:5d} obs {q['what']} band={q['band']} res={q['res']} mon={q['mon_list']}")
        elif q["ev"] == "conc_begin":
            print(f"  {i+1:5d} conc_begin {q['schedule']}")
        else:
            print(f"  {i+1:5d} {q['ev']}")
print("workdir", res["workdir"], "events", res["events"], "hangs", res["hangs"])
