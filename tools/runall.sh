#!/bin/bash
# usage: tools/runall.sh [tier] [seed]  — runs every check, prints one line each
tier=${1:-quick}; seed=${2:-1}
cd "$(dirname "$(readlink -f "$0")")/.."
for p in C01 C02 C03 C04 C05 C06 C07 C08 C09 C10 C11 C12 C13 C14 C15 C16 C17 C18; do
  s=$(date +%s)
  out=$(./check $p --tier $tier --seed $seed 2>&1); rc=$?
  e=$(date +%s)
  echo "$p rc=$rc $((e-s))s $(echo "$out" | grep -c '^VIOLATION') violations; $(echo "$out" | grep -E 'executed' | sed 's/.*\] //')"
  if [ $rc -ne 0 ]; then echo "$out" | grep -E "VIOLATION|TOOL-ERROR|KNOWN|scenario=" | head -6; fi
done
